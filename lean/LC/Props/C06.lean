/-
C06: notices, list markers, hyphenation and spelling variants are ignored — the
tokenizer part, for EVERY environment unless a theorem names the Go tables.
Two statements need a fact about the environment that `EnvWF` does not give (marked
`-- ADJUSTED:` with the counterexample); each has a `_go` companion showing the Go tables
satisfy the added hypotheses.

What is NOT true of the code, and therefore not claimed (known_findings.json):
a marker of the form `a)` is not dropped (`letter_paren_not_header`); after a
hyphen-joined word the rest of the line is processed as a new line
(C06/line-restart-after-hyphen-join); a Copyright pseudo-match inside the line
span of a retained license is filtered out by `match` (`notice_inside_span_dropped`).
Property theorems only; helper lemmas live in LC/Proofs/Tok06.lean.
-/
import LC.Spec.TokSpec
import LC.Model.V2Env
import LC.Model.V2Match
import LC.Proofs.Tok06

namespace LC.V2Tok
open LC.Utf8

/-- A notice line: a whole line whose words read as a copyright notice or date adds exactly one
Copyright pseudo-match on its line, adds no token, and moves on to the next line with nothing
pending (so everything after it is tokenized as before, one line lower — `tokenize_from_clean`). -/
theorem notice_line (E : Env) (s : State) (hc : Clean s) (n : List Rune) (hn : nl ∉ n)
    (hd : (scanFrom E true s n).deferredEOL = false)
    (hh : (scanFrom E true s n).obuf.getLast? ≠ some hyphen)
    (hne : lineBufOf E (scanFrom E true s n) ≠ [])
    (hi : E.ignorable (joinLine (lineBufOf E (scanFrom E true s n))) = true) :
    scanFrom E true s (n ++ [nl]) =
      { obuf := [], linebuf := [], line := s.line + 1, deferredEOL := false, deferredLines := 0,
        doc := { s.doc with copyrights := s.doc.copyrights ++ [s.line] } } :=
  notice_line' E s hc n hn hd hh hne hi

/-- A first-of-line word that is a list marker / section number leaves no token. -/
theorem marker_dropped (E : Env) (w : Word) (n : Bool) (h : header E w = true) :
    cleanupToken E 0 w n = [] :=
  marker_dropped' E w n h

/-- what counts as a marker -/
theorem header_iff (E : Env) (w : Word) :
    header E w = true ↔
      ∃ p e, w = p ++ [e] ∧ (e = 46 ∨ e = 58 ∨ e = 41) ∧
        ((E.listMarker (p.map E.toLower) = true ∧ e ≠ 41) ∨ p.all (fun r => E.isDigit r || r = 46) = true) :=
  header_iff' E w

open LC.V2Env in
/-- `1.`, `iv.`, `a.`, `3.1.`, `b:` are markers for the Go tables; `a)` is not (finding). -/
theorem marker_examples (u : Word → Word) :
    header (goEnv u) (lit "1.") = true ∧ header (goEnv u) (lit "iv.") = true ∧
    header (goEnv u) (lit "a.") = true ∧ header (goEnv u) (lit "3.1.") = true ∧
    header (goEnv u) (lit "b:") = true ∧ header (goEnv u) (lit "12)") = true ∧
    header (goEnv u) (lit "a)") = false :=
  marker_examples' u

/-- Hyphenation: a word split by hyphen + newline (+ indentation) is accumulated as the same word.

-- ADJUSTED: hypotheses `hhs` and `hhc` added. `EnvWF` says nothing about the hyphen, and for an
arbitrary environment the statement is false. Counterexamples (both environments satisfy `EnvWF`;
letters 'a','b', no digits, `toLower = id`):
 * hyphen a space (`isSpace r := r = 32 ∨ r = 10 ∨ r = 45`, `punct := none`), `s = {}`, `x = [97]`,
   `sp = [32]`, `c = 98`: the left side is `[98]` (the hyphen flushes the word), the right `[97, 98]`;
 * `punct 45 = some [95]` (spaces 32, 10): the newline finds no trailing hyphen and flushes the
   word, left side `[98]`, right side `[97, 98]`.
`hhc` is exactly what `step` appends for the hyphen; the Go tables satisfy both (`goEnv_hyphen`). -/
theorem hyphen_join_word (E : Env) (wf : EnvWF E)
    (hhs : E.isSpace hyphen = false)
    (hhc : (match E.punct hyphen with | some rep => rep.map E.toLower | none => [E.toLower hyphen]) = [hyphen])
    (s : State) (x sp : List Rune) (c : Rune)
    (hx : (scanFrom E true s x).obuf ≠ []) (hxd : (scanFrom E true s x).deferredEOL = false)
    (hsp : ∀ r ∈ sp, E.isSpace r = true ∧ r ≠ nl) (hc : E.isSpace c = false) (hcn : c ≠ nl) :
    (scanFrom E true s (x ++ [hyphen, nl] ++ sp ++ [c])).obuf = (scanFrom E true s (x ++ [c])).obuf :=
  hyphen_join_word' E wf hhs hhc s x sp c hx hxd hsp hc hcn

open LC.V2Env in
/-- the Go tables satisfy the hypotheses added to `hyphen_join_word` -/
theorem hyphen_join_word_go (u : Word → Word) (s : State) (x sp : List Rune) (c : Rune)
    (hx : (scanFrom (goEnv u) true s x).obuf ≠ []) (hxd : (scanFrom (goEnv u) true s x).deferredEOL = false)
    (hsp : ∀ r ∈ sp, (goEnv u).isSpace r = true ∧ r ≠ nl) (hc : (goEnv u).isSpace c = false) (hcn : c ≠ nl) :
    (scanFrom (goEnv u) true s (x ++ [hyphen, nl] ++ sp ++ [c])).obuf =
      (scanFrom (goEnv u) true s (x ++ [c])).obuf :=
  hyphen_join_word' (goEnv u) (goEnv_wf' u) (goEnv_hyphen u).1 (goEnv_hyphen u).2 s x sp c hx hxd hsp hc hcn

/-- Spelling variants: a listed spelling and its replacement leave the same token.

-- ADJUSTED: hypothesis `hE` added ('.', ':' and ')' are not letters). For an arbitrary environment
the statement is false: with `isLetter := fun _ => true`, `listMarker w := (w = [97])`,
`interchangeable [97, 46] = some [98]` (and `none` elsewhere), `a = [97, 46]`, `b = [98]`, `pos = 0`:
`a` is all "letters" but reads as the list marker `a.`, so `cleanupToken E 0 a true = []` while
`cleanupToken E 0 b true = [98]`. The Go tables satisfy `hE` (`interchangeable_same_token_go`). -/
theorem interchangeable_same_token (E : Env)
    (hE : E.isLetter 46 = false ∧ E.isLetter 58 = false ∧ E.isLetter 41 = false)
    (pos : Nat) (a b : Word)
    (ha : a ≠ [] ∧ a.all E.isLetter = true) (hb : b ≠ [] ∧ b.all E.isLetter = true)
    (hab : E.interchangeable a = some b) (hbb : E.interchangeable b = none) :
    cleanupToken E pos a true = cleanupToken E pos b true :=
  interchangeable_same_token' E hE pos a b ha hb hab hbb

open LC.V2Env in
/-- the Go tables satisfy the hypothesis added to `interchangeable_same_token` -/
theorem interchangeable_same_token_go (u : Word → Word) (pos : Nat) (a b : Word)
    (ha : a ≠ [] ∧ a.all (goEnv u).isLetter = true) (hb : b ≠ [] ∧ b.all (goEnv u).isLetter = true)
    (hab : (goEnv u).interchangeable a = some b) (hbb : (goEnv u).interchangeable b = none) :
    cleanupToken (goEnv u) pos a true = cleanupToken (goEnv u) pos b true :=
  interchangeable_same_token' (goEnv u) (goEnv_letters u) pos a b ha hb hab hbb

/-- the regenerated table has the spellings the property lists, and no replacement is itself replaced -/
theorem spelling_table :
    (LC.V2Env.interchangeable (LC.V2Env.lit "licence") = some (LC.V2Env.lit "license")) ∧
    (LC.V2Env.interchangeable (LC.V2Env.lit "whilst") = some (LC.V2Env.lit "while")) ∧
    (LC.V2Env.interchangeable (LC.V2Env.lit "organisation") = some (LC.V2Env.lit "organization")) ∧
    (LC.V2Env.interchangeable (LC.V2Env.lit "https") = some (LC.V2Env.lit "http")) ∧
    (∀ kv ∈ LC.Gen.V2.interchangeableWords, LC.V2Env.interchangeable kv.2 = none ∨ kv.2 = kv.1) := by
  decide

/-- http/https: the scheme rewrite maps both spellings of a URL to the same word, and it is
idempotent (what C11 needs of it). -/
theorem https_http (r : List Rune) :
    replaceHttps (LC.V2Env.lit "https://" ++ r) = replaceHttps (LC.V2Env.lit "http://" ++ r) :=
  https_http' r

theorem replaceHttps_idem (w : List Rune) : replaceHttps (replaceHttps w) = replaceHttps w :=
  replaceHttps_idem' w

/-- `normalizeToken` (the scheme rewrite as repaired for Normalize's case-preserving mode): a word
that starts with a capitalised `Https://` is rewritten like its lower-case form — lower-casing the
first rune afterwards gives what the lower-cased word is rewritten to — and the rewrite is
idempotent. -/
theorem normalizeToken_capital (r : List Rune) :
    normalizeToken (72 :: LC.V2Env.lit "ttps://" ++ r) = 72 :: LC.V2Env.lit "ttp://" ++ replaceHttps r ∧
    normalizeToken (104 :: LC.V2Env.lit "ttps://" ++ r) = 104 :: LC.V2Env.lit "ttp://" ++ replaceHttps r := by
  constructor <;> simp [normalizeToken, fixHttpsHead, replaceHttps, LC.V2Env.lit]

theorem normalizeToken_idem (w : List Rune) : normalizeToken (normalizeToken w) = normalizeToken w :=
  normalizeToken_idem' w

open LC.V2Match in
/-- The last sentence of the property fails at the `Match` level (recorded finding): a Copyright
pseudo-match whose line lies inside the span of a retained license is dropped by the retain pass. -/
theorem notice_inside_span_dropped :
    let N : NumEnv Nat := {
      q := 4, simGE := fun _ _ => true, scaleFloor := id, errMargin := id,
      conf := fun _ _ => 100, confZero := 0, confOne := 100, geThr := fun _ => true,
      gt := fun a b => decide (a > b), wgt := fun ta a tb b => decide (ta * a > tb * b) }
    retainPass N (sortBy (matchLess N)
      [{ name := "Copyright", conf := 100, matchType := "Copyright", variant := "", startLine := 5, endLine := 5, startTok := 0, endTok := 0 },
       { name := "MIT", conf := 100, matchType := "License", variant := "a.txt", startLine := 1, endLine := 10, startTok := 0, endTok := 160 }])
      = [true, false] := by decide

end LC.V2Tok
