/-
C09 / C14: the logic of the two concurrency properties, for every number of
threads and every interleaving.

C09 (read-only sharing): if no event writes a shared location, there is no
data race on it and every read — in every interleaving — returns the initial
value, i.e. each call observes exactly what it observes when it runs alone.
That Match's footprint on the corpus is read-only is NOT proved here: it is
monitored (deep snapshot of the classifier before/after, race detector).

C14 (write-once under the lock): a trace satisfying `Protocol` has no data
race on the lazily initialised location, contains at most one write to it, and
all reads outside the lock return that one non-nil value.  The skeleton of
multipleMatch extracted from the source (LC/Gen/V1Protocol) is checked to be of
the locked check-and-set shape; the pre-repair shape (check outside the lock)
admits the racy trace `racy_unlocked_check`.
Property theorems only; helper lemmas live in LC/Proofs/Conc.lean.
-/
import LC.Model.Conc
import LC.Proofs.Conc

namespace LC.Conc

theorem readonly_no_race (tr : Trace) (x : Nat) (h : NoWrites tr x) : ¬ Race tr x :=
  readonly_no_race' tr x h

theorem readonly_reads_initial (init : Nat → Nat) (tr : Trace) (x : Nat) (h : NoWrites tr x)
    (i : Nat) (t : Nat) (hi : tr[i]? = some ⟨t, .rd x⟩) : readValue init tr i = some (init x) :=
  readonly_reads_initial' init tr x h i t hi

theorem protocol_at_most_one_write (init : Nat → Nat) (tr : Trace) (x : Nat) (P : Protocol init tr x)
    (i j : Nat) (ti tj vi vj : Nat) (hi : tr[i]? = some ⟨ti, .wr x vi⟩) (hj : tr[j]? = some ⟨tj, .wr x vj⟩) :
    i = j :=
  protocol_at_most_one_write' init tr x P i j ti tj vi vj hi hj

theorem protocol_no_race (init : Nat → Nat) (tr : Trace) (x : Nat) (P : Protocol init tr x) :
    ¬ Race tr x :=
  protocol_no_race' init tr x P

/-- all reads outside the lock agree and are not nil -/
theorem protocol_reads_agree (init : Nat → Nat) (tr : Trace) (x : Nat) (P : Protocol init tr x)
    (i j ti tj : Nat) (hi : tr[i]? = some ⟨ti, .rd x⟩) (hj : tr[j]? = some ⟨tj, .rd x⟩)
    (oi : holderFold tr i ≠ some ti) (oj : holderFold tr j ≠ some tj) :
    readValue init tr i = readValue init tr j ∧ readValue init tr i ≠ some 0 :=
  protocol_reads_agree' init tr x P i j ti tj hi hj oi oj

/-- The pre-repair shape — nil check outside the lock — admits a race: thread 0 checks x
unlocked while thread 1 sets it under the lock. -/
theorem racy_unlocked_check :
    Race [⟨1, .lock⟩, ⟨0, .rd 7⟩, ⟨1, .wr 7 5⟩, ⟨1, .unlock⟩] 7 :=
  racy_unlocked_check'

/-- Non-vacuity: a two-thread run of the protocol. -/
example : Protocol (fun _ => 0)
    [⟨0, .lock⟩, ⟨0, .rd 7⟩, ⟨0, .wr 7 5⟩, ⟨0, .unlock⟩, ⟨1, .lock⟩, ⟨1, .rd 7⟩, ⟨1, .unlock⟩,
     ⟨0, .rd 7⟩, ⟨1, .rd 7⟩] 7 :=
  nonvacuous_example

end LC.Conc
