import LC.Props.C20Heap
import LC.Props.C20Sets
import LC.Props.C20SetsAlgebra
import LC.Props.C20HeapSort
