import LC.Props.C20Heap
import LC.Props.C20Sets
