/-
C20 (set half, continued): the algebra a caller of `sets.StringSet`/`IntSet`
relies on, derived for ALL operands and ALL map iteration orders from the
per-operation specifications in LC/Props/C20Sets.lean. Membership is the
observable (`Contains`), `len` the cardinality (`Len`), `equal` the Go
`Equal`.
-/
import LC.Props.C20Sets

namespace LC.Sets
variable {α : Type} [DecidableEq α]
set_option linter.unusedSectionVars false

/-- `Empty()` answers emptiness of the denoted set. -/
theorem empty_spec (s : S α) : empty s = true ↔ ∀ x, x ∉ s := by
  cases s with
  | nil => simp [empty]
  | cons a t =>
    simp only [empty, List.length_cons, Nat.add_one_ne_zero, decide_false, Bool.false_eq_true,
      false_iff]
    intro h; exact h a (List.mem_cons_self)

/-- Intersection is commutative — as sets, as cardinalities and for `Equal` —
whichever operand the implementation chooses to iterate. -/
theorem intersect_comm (en en' : Enum α) (s o : S α) (hs : WF s) (ho : WF o) :
    (∀ x, x ∈ intersect en s (some o) ↔ x ∈ intersect en' o (some s)) ∧
    len (intersect en s (some o)) = len (intersect en' o (some s)) ∧
    equal en (some (intersect en s (some o))) (some (intersect en' o (some s))) = true := by
  have h1 := intersect_spec en s (some o) hs ho
  have h2 := intersect_spec en' o (some s) ho hs
  have hm : ∀ x, x ∈ intersect en s (some o) ↔ x ∈ intersect en' o (some s) := by
    intro x; rw [h1.2, h2.2]; simp only [memo]; exact And.comm
  exact ⟨hm, len_spec _ _ h1.1 h2.1 hm, (equal_spec en _ _ h1.1 h2.1).2 hm⟩

/-- Union is commutative. -/
theorem union_comm (en en' : Enum α) (s o : S α) (hs : WF s) (ho : WF o) :
    (∀ x, x ∈ union en s (some o) ↔ x ∈ union en' o (some s)) ∧
    len (union en s (some o)) = len (union en' o (some s)) := by
  have h1 := union_spec en s (some o) hs ho
  have h2 := union_spec en' o (some s) ho hs
  have hm : ∀ x, x ∈ union en s (some o) ↔ x ∈ union en' o (some s) := by
    intro x; rw [h1.2, h2.2]; simp only [memo]; exact Or.comm
  exact ⟨hm, len_spec _ _ h1.1 h2.1 hm⟩

/-- `Unique` (symmetric difference) is symmetric. -/
theorem unique_comm (en en' : Enum α) (s o : S α) (hs : WF s) (ho : WF o) :
    ∀ x, x ∈ unique en s (some o) ↔ x ∈ unique en' o (some s) := by
  intro x
  rw [(unique_spec en s (some o) hs ho).2, (unique_spec en' o (some s) ho hs).2]
  simp only [memo]; exact Or.comm

/-- Idempotence: a set intersected or united with itself is itself. -/
theorem intersect_union_self (en : Enum α) (s : S α) (hs : WF s) :
    (∀ x, x ∈ intersect en s (some s) ↔ x ∈ s) ∧ (∀ x, x ∈ union en s (some s) ↔ x ∈ s) := by
  refine ⟨fun x => ?_, fun x => ?_⟩
  · rw [(intersect_spec en s (some s) hs hs).2]; simp [memo]
  · rw [(union_spec en s (some s) hs hs).2]; simp [memo]

/-- `s \ s` and `Unique(s, s)` are empty. -/
theorem difference_unique_self (en : Enum α) (s : S α) (hs : WF s) :
    empty (difference en s (some s)) = true ∧ empty (unique en s (some s)) = true := by
  refine ⟨(empty_spec _).2 fun x hx => ?_, (empty_spec _).2 fun x hx => ?_⟩
  · rw [(difference_spec en s (some s) hs).2] at hx; simp [memo] at hx
  · rw [(unique_spec en s (some s) hs hs).2] at hx; simp [memo] at hx

/-- Every set splits into the part shared with `o` and the part not in `o`;
the two parts are disjoint, and the second is disjoint from `o`. -/
theorem split_by (en : Enum α) (s : S α) (o : Option (S α)) (hs : WF s) (ho : WFo o) :
    (∀ x, x ∈ s ↔ x ∈ intersect en s o ∨ x ∈ difference en s o) ∧
    disjoint en (intersect en s o) (some (difference en s o)) = true ∧
    disjoint en (difference en s o) o = true := by
  have hi := (intersect_spec en s o hs ho).2
  have hd := (difference_spec en s o hs).2
  refine ⟨fun x => ?_, ?_, ?_⟩
  · rw [hi, hd]
    by_cases h : memo x o <;> simp [h]
  · rw [disjoint_spec]; intro x ⟨h1, h2⟩
    simp only [memo] at h2
    rw [hi] at h1; rw [hd] at h2; exact h2.2 h1.2
  · rw [disjoint_spec]; intro x ⟨h1, h2⟩
    rw [hd] at h1; exact h1.2 h2

/-- The symmetric difference is the union without the intersection. -/
theorem unique_eq_union_minus_intersect (en : Enum α) (s o : S α) (hs : WF s) (ho : WF o) :
    ∀ x, x ∈ unique en s (some o) ↔
      x ∈ difference en (union en s (some o)) (some (intersect en s (some o))) := by
  intro x
  have hu := union_spec en s (some o) hs ho
  rw [(unique_spec en s (some o) hs ho).2, (difference_spec en _ _ hu.1).2, hu.2]
  simp only [memo]
  rw [(intersect_spec en s (some o) hs ho).2]
  simp only [memo]
  by_cases h1 : x ∈ s <;> by_cases h2 : x ∈ o <;> simp [h1, h2]

/-- Inserting then deleting the same elements leaves exactly what was there
and is not among them; deleting then inserting gives the union. -/
theorem insert_delete (s : S α) (es : List α) (hs : WF s) :
    (∀ x, x ∈ delete (insert s es) es ↔ x ∈ s ∧ x ∉ es) ∧
    (∀ x, x ∈ insert (delete s es) es ↔ x ∈ s ∨ x ∈ es) := by
  have hi := insert_spec s es hs
  have hd := delete_spec s es hs
  refine ⟨fun x => ?_, fun x => ?_⟩
  · rw [(delete_spec _ es hi.1).2, hi.2]
    by_cases h : x ∈ es <;> simp [h]
  · rw [(insert_spec _ es hd.1).2, hd.2]
    by_cases h : x ∈ es <;> simp [h]

/-- `Equal` is an equivalence on well-formed sets (reflexive, symmetric,
transitive), for any iteration orders. -/
theorem equal_equiv (en en' en'' : Enum α) (a b c : S α) (ha : WF a) (hb : WF b) (hc : WF c) :
    equal en (some a) (some a) = true ∧
    (equal en (some a) (some b) = true → equal en' (some b) (some a) = true) ∧
    (equal en (some a) (some b) = true → equal en' (some b) (some c) = true →
      equal en'' (some a) (some c) = true) := by
  refine ⟨(equal_spec en a a ha ha).2 fun _ => Iff.rfl, fun h => ?_, fun h1 h2 => ?_⟩
  · exact (equal_spec en' b a hb ha).2 fun x => ((equal_spec en a b ha hb).1 h x).symm
  · exact (equal_spec en'' a c ha hc).2 fun x =>
      ((equal_spec en a b ha hb).1 h1 x).trans ((equal_spec en' b c hb hc).1 h2 x)

/-- Non-vacuity. -/
example : WF ([3, 1, 2] : S Nat) ∧ WF ([2, 5] : S Nat) ∧
    intersect Enum.id ([3, 1, 2] : S Nat) (some [2, 5]) = [2] ∧
    intersect Enum.rev ([2, 5] : S Nat) (some [3, 1, 2]) = [2] ∧
    difference Enum.id ([3, 1, 2] : S Nat) (some [2, 5]) = [3, 1] ∧
    empty (difference Enum.id ([3, 1, 2] : S Nat) (some [3, 1, 2])) = true := by
  refine ⟨by unfold WF; decide, by unfold WF; decide, by decide, by decide, by decide, by decide⟩

end LC.Sets

namespace LC.Sets
variable {α : Type} [DecidableEq α]

/-- Two disjoint well-formed parts that together have the members of `s` have
`Len`s adding up to `Len s`. -/
theorem len_of_parts (s a b : S α) (hs : WF s) (ha : WF a) (hb : WF b)
    (hdisj : ∀ x, x ∈ a → x ∉ b) (hmem : ∀ x, x ∈ s ↔ x ∈ a ∨ x ∈ b) :
    len s = len a + len b := by
  have hab : WF (a ++ b) := by
    unfold WF at *
    exact List.nodup_append.2 ⟨ha, hb, fun x hx y hy hxy => hdisj x hx (hxy ▸ hy)⟩
  have := len_spec s (a ++ b) hs hab (fun x => by rw [hmem x, List.mem_append])
  simpa [len] using this

/-- `Len s = Len (s ∩ o) + Len (s \ o)`. -/
theorem len_split (en : Enum α) (s o : S α) (hs : WF s) (ho : WF o) :
    len s = len (intersect en s (some o)) + len (difference en s (some o)) := by
  have hi := intersect_spec en s (some o) hs ho
  have hd := difference_spec en s (some o) hs
  apply len_of_parts s _ _ hs hi.1 hd.1
  · intro x hx hx'
    rw [hi.2] at hx; rw [hd.2] at hx'; exact hx'.2 hx.2
  · exact (split_by en s (some o) hs ho).1

/-- Inclusion–exclusion: `Len (s ∪ o) + Len (s ∩ o) = Len s + Len o`, whatever
the iteration orders. -/
theorem len_union_intersect (en : Enum α) (s o : S α) (hs : WF s) (ho : WF o) :
    len (union en s (some o)) + len (intersect en s (some o)) = len s + len o := by
  have hu := union_spec en s (some o) hs ho
  have hd := difference_spec en o (some s) ho
  have h1 : len (union en s (some o)) = len s + len (difference en o (some s)) := by
    apply len_of_parts _ s _ hu.1 hs hd.1
    · intro x hx hx'
      rw [hd.2] at hx'; exact hx'.2 hx
    · intro x
      rw [hu.2, hd.2]; simp only [memo]
      by_cases h : x ∈ s <;> simp [h]
  have h2 := len_split en o s ho hs
  have h3 := (intersect_comm en en s o hs ho).2.1
  omega

end LC.Sets
