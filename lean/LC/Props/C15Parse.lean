/-
C15 (continued): what `registerLicenses` does with ANY entry list, not only one
that `ArchiveLicenses` wrote. Entries are consumed in pairs, so
* an archive with an odd number of entries (a truncated or hand-edited file) is
  an error — never silently a shorter corpus (`parse_none_iff_odd`);
* when it succeeds there is exactly one value per pair (`parse_length`);
* and the whole round trip `register ∘ parse ∘ build` returns one value per
  `.txt` file, in order, whenever the resulting names are distinct
  (`roundtrip_register`), and is an error otherwise (`roundtrip_duplicate`).
-/
import LC.Props.C15

namespace LC.V1Glue

theorem parse_none_iff_odd (es : List Entry) : parseArchive es = none ↔ es.length % 2 = 1 := by
  fun_induction parseArchive es with
  | case1 => simp
  | case2 => simp
  | case3 a b rest ih =>
    simp only [Option.map_eq_none_iff, List.length_cons, ih]
    omega

theorem parse_length (es : List Entry) (r : List (String × List UInt8 × List UInt8))
    (h : parseArchive es = some r) : 2 * r.length = es.length := by
  fun_induction parseArchive es generalizing r with
  | case1 => simp at h; subst h; rfl
  | case2 => simp at h
  | case3 a b rest ih =>
    simp only [Option.map_eq_some_iff] at h
    obtain ⟨r', hr', rfl⟩ := h
    have := ih r' hr'
    simp only [List.length_cons]
    omega

/-- The archive `ArchiveLicenses` writes always has an even number of entries. -/
theorem build_even (read : String → List UInt8) (norm ser : List UInt8 → List UInt8)
    (files : List String) : (buildArchive read norm ser files).length % 2 = 0 := by
  have h := parse_build read norm ser files
  have := parse_length _ _ h
  omega

/-- Full round trip: distinct names ⇒ every `.txt` file is registered, in order. -/
theorem roundtrip_register (read : String → List UInt8) (norm ser : List UInt8 → List UInt8)
    (files : List String)
    (hd : ((files.filter (·.endsWith ".txt")).map (fun f => (f.dropEnd 4).toString)).Nodup) :
    (parseArchive (buildArchive read norm ser files)).bind register =
      some ((files.filter (·.endsWith ".txt")).map
        (fun f => ((f.dropEnd 4).toString, norm (read f), ser (norm (read f))))) := by
  rw [parse_build]
  simp only [Option.bind_some]
  apply register_distinct
  simpa [List.map_map, Function.comp_def] using hd

/-- Full round trip: a repeated name ⇒ registration fails. -/
theorem roundtrip_duplicate (read : String → List UInt8) (norm ser : List UInt8 → List UInt8)
    (files : List String)
    (hd : ¬ ((files.filter (·.endsWith ".txt")).map (fun f => (f.dropEnd 4).toString)).Nodup) :
    (parseArchive (buildArchive read norm ser files)).bind register = none := by
  rw [parse_build]
  simp only [Option.bind_some]
  apply register_duplicate
  simpa [List.map_map, Function.comp_def] using hd

/-- Non-vacuity: a three-entry list is rejected, a two-entry list gives one value. -/
example : parseArchive [⟨"a.txt", [1]⟩, ⟨"a.hash", [2]⟩, ⟨"b.txt", [3]⟩] = none ∧
    (parseArchive [⟨"LICENSE", [1]⟩, ⟨"a.hash", [2]⟩]).map (·.length) = some 1 := by
  refine ⟨(parse_none_iff_odd _).2 (by decide), ?_⟩
  simp [parseArchive]

end LC.V1Glue
