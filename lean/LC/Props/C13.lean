/-
C13: v1 string classifier finds verbatim occurrences exactly — the exact path.

`findAllIndex` (literal search, as repaired) returns exactly the successive
non-overlapping occurrences of the normalised value; for a token-aligned
occurrence the repaired token-range loop returns its first and last token, so
the reported Offset/Extent (TargetRange of that token range, LC/Props/C17)
delimit exactly the copy; a value that begins or ends with white space is
searched for with it, its tokens are looked up without it, and the occurrence
is reported with it (`exact_reports_occurrence`).  Registration cannot panic any more because no
regular expression is compiled (by construction of the repaired code; the
harness registers metacharacter-laden and invalid UTF-8 values).  Confidence 1.0
for the exact copy rests on go-diff returning a single Equal for equal texts
(DiffSpec.equalInputs) and is checked by the oracle.
Property theorems only; helper lemmas live in LC/Proofs/V1Glue.lean.
-/
import LC.Model.V1Glue
import LC.Proofs.V1Glue

namespace LC.V1Glue

/-- every reported range is an occurrence, and the ranges are in order and do not overlap -/
theorem findAll_sound (s sub : List UInt8) :
    (∀ r ∈ findAllIndex s sub, r.2 = r.1 + sub.length ∧ (s.drop r.1).take sub.length = sub ∧ r.2 ≤ s.length) ∧
    (findAllIndex s sub).Pairwise (fun a b => a.2 ≤ b.1) :=
  findAll_sound' s sub

/-- the first occurrence is always found -/
theorem findAll_first (s sub : List UInt8) (hs : sub ≠ []) (i : Nat)
    (hi : (s.drop i).take sub.length = sub ∧ i + sub.length ≤ s.length)
    (hmin : ∀ j < i, (s.drop j).take sub.length ≠ sub) :
    (findAllIndex s sub).head? = some (i, i + sub.length) :=
  findAll_first' s sub hs i hi hmin

/-- For a token-aligned occurrence [a,b) — a is the offset of token i, b the end of token j,
i ≤ j — the loop returns (i, j): also when i = j (a single-token value), the case the original
`else if` got wrong. -/
theorem exact_token_range (toks : List Tok) (ho : Ordered toks) (hpos : ∀ t ∈ toks, 0 < t.len) (i j : Nat) (ti tj : Tok)
    (hi : toks[i]? = some ti) (hj : toks[j]? = some tj) (hij : i ≤ j) :
    exactRange toks ti.offset (tj.offset + tj.len) = (i, j) :=
  exact_token_range' toks ho hpos i j ti tj hi hj hij

/-- An occurrence that ends in white space after its last token (b beyond the end of token j but
not beyond the next token's start) still gets tokens i..j — also when j is the last token of the
text. -/
theorem exact_token_range_trailing (toks : List Tok) (ho : Ordered toks) (hpos : ∀ t ∈ toks, 0 < t.len) (i j : Nat) (ti tj : Tok) (b : Nat)
    (hi : toks[i]? = some ti) (hj : toks[j]? = some tj) (hij : i ≤ j) (hb : tj.offset < b)
    (hnext : ∀ tn, toks[j + 1]? = some tn → b ≤ tn.offset) :
    exactRange toks ti.offset b = (i, j) :=
  exact_token_range_trailing' toks ho hpos i j ti tj b hi hj hij hb hnext

example : exactRange [⟨0, 3⟩, ⟨4, 3⟩, ⟨8, 3⟩, ⟨12, 3⟩] 8 11 = (2, 2) := by decide
example : exactRange [⟨0, 3⟩, ⟨4, 3⟩] 4 8 = (1, 1) := by decide

/-- A value that begins or ends with white space (a text registered with its final newline): when
the occurrence without that white space is token-aligned — from the offset of token i to the end of
token j — the loop is run on the trimmed occurrence, returns (i, j), and the reported byte range is
the occurrence [a, b) itself, white space included (as repaired; before, the range left the white
space out and the confidence was 1 - 1/|value|, and a leading blank lost the start token). -/
theorem exact_reports_occurrence (toks : List Tok) (ho : Ordered toks) (hpos : ∀ t ∈ toks, 0 < t.len)
    (i j : Nat) (ti tj : Tok) (hi : toks[i]? = some ti) (hj : toks[j]? = some tj) (hij : i ≤ j)
    (a b : Nat) (lohi : Nat × Nat) (ht : lohi = (ti.offset, tj.offset + tj.len)) :
    exactRange toks lohi.1 lohi.2 = (i, j) ∧
    exactBytes a b lohi (ti.offset, tj.offset + tj.len) = (a, b) := by
  subst ht
  exact ⟨exact_token_range toks ho hpos i j ti tj hi hj hij, by simp [exactBytes]⟩

/-- whatever the token range gives, the reported range ends inside the text if both candidates do -/
theorem exactBytes_inside (a b n : Nat) (lohi tr : Nat × Nat) (hb : b ≤ n) (ht : tr.2 ≤ n) :
    (exactBytes a b lohi tr).2 ≤ n := by
  unfold exactBytes; split <;> simp_all

/-- "x beta of" with the value "beta ": the occurrence [2,7) is trimmed to [2,6), which is token 1,
and reported as [2,7); white space only stays as it is -/
example : trimOcc (· == 32) [120, 32, 98, 101, 116, 97, 32, 111, 102] 2 7 = (2, 6) := by decide
example : exactBytes 2 7 (2, 6) (2, 6) = (2, 7) := by decide
example : trimOcc (· == 32) [120, 32, 32, 111] 1 3 = (1, 3) := by decide
/-- a leading blank: " of" at [6,9) of "x beta of" is trimmed to [7,9) -/
example : trimOcc (· == 32) [120, 32, 98, 101, 116, 97, 32, 111, 102] 6 9 = (7, 9) := by decide

/-- NearestMatch of a string equal to a known value: the shortcut returns one of the values whose
normalised text equals it (whatever the map order), provided equal texts pass the ratio gate. -/
theorem nearest_exact (ratioOK : List UInt8 → List UInt8 → Bool) (hr : ∀ x, ratioOK x x = true)
    (unknown : List UInt8) (vals : List KV) (h : ∃ v ∈ vals, v.norm = unknown) :
    ∃ k, nearestExact ratioOK unknown vals = some k ∧ ∃ v ∈ vals, v.key = k ∧ v.norm = unknown :=
  nearest_exact' ratioOK hr unknown vals h

end LC.V1Glue
