/-
C01: an embedded corpus license is found whole, at confidence 1.0 — the parts
that are theorems.

For every corpus document D (as an id list) planted in any context:
 * the token-frequency pre-filter can never reject it (`prefilter_contains`);
 * every q-gram of D occurs with the same checksum at the planted position
   (`hashes_contains`), so the hash join sees the copy;
 * when the diff library reports the two texts equal, the score is distance 0
   with no trimming, hence Confidence = conf |D| 0 = 1.0 (`score_exact`);
 * the retain pass yields one flag per candidate (`retain_length`), keeps a lone candidate
   (`retain_single`), and keeps every candidate that shares no line with any other candidate
   (`retain_unconflicted`).
That the join/run/fuse stages then propose exactly the planted range is
`exact_range_proposed` (LC/Props/C01Range.lean).  `retain_not_dominated` states exactly when
the overlap filter keeps a candidate (the `NoDominator` condition of DESIGN §6 C01); that the
condition holds for a planted copy — no other corpus document's candidate contains its lines
with a larger tokens × confidence — depends on the corpus and is established on the
implementation by the C01 oracle over every corpus document, thresholds 0.7–1.0 and multi-copy
plantings.
Property theorems only; helper lemmas live in LC/Proofs/Exact.lean.
-/
import LC.Model.V2Match
import LC.Proofs.Exact

namespace LC.V2Match
open LC.Score

/-- the pre-filter never rejects a contained document: every distinct token of D occurs in the
input at least as often as in D -/
theorem prefilter_contains (pre D post : List Nat) :
    tokenSim (pre ++ D ++ post) D = ((distinct D).length, (distinct D).length) :=
  prefilter_contains' pre D post

/-- every q-gram of the planted copy has the checksum of the document's q-gram -/
theorem hashes_contains (crc : Text → Nat) (wordOf : Nat → Text) (q : Nat) (hq : 0 < q)
    (pre D post : List Nat) (i : Nat) (hi : i + q ≤ D.length) :
    (hashes crc wordOf q (pre ++ D ++ post))[pre.length + i]? = (hashes crc wordOf q D)[i]? :=
  hashes_contains' crc wordOf q hq pre D post i hi

/-- identical texts: one Equal segment, distance 0, nothing trimmed -/
theorem score_exact (D : List Nat) (hD : D ≠ []) :
    scoreOffsets D [⟨.eq, D⟩] = (0, 0, 0) ∧ Valid [⟨.eq, D⟩] D D :=
  score_exact' D hD

/-- …and no veto fires on an identical text, so the confidence is `conf |D| 0` -/
theorem score_exact_conf {C : Type} (N : NumEnv C) (wordOf : Nat → Text) (isDigitRune : Nat → Bool)
    (decode : Text → List Nat) (induced : List (Text × List Text)) (d : KDoc) (hD : d.ids ≠ []) :
    score N wordOf isDigitRune decode induced d [⟨.eq, d.ids⟩] = (N.conf d.ids.length 0, 0, 0) :=
  score_exact_conf' N wordOf isDigitRune decode induced d hD

/-- the retain pass decides every candidate: one flag per candidate -/
theorem retain_length {C : Type} (N : NumEnv C) (cands : List (Match C)) :
    (retainPass N cands).length = cands.length :=
  retain_length' N cands

/-- a lone candidate is retained -/
theorem retain_single {C : Type} (N : NumEnv C) (c : Match C) : retainPass N [c] = [true] :=
  retain_single' N c

/-- tokens × confidence of a candidate, as the overlap filter weighs it -/
def heavier {C : Type} (N : NumEnv C) (a b : Match C) : Bool :=
  N.wgt (a.endTok - a.startTok) a.conf (b.endTok - b.startTok) b.conf

/-- `NoDominator`, exactly: the overlap filter keeps candidate `c` (at position `i` of the sorted
list) if no EARLIER candidate both is contained in its lines and weighs more, or overlaps it
without being contained (other than touching: c starts on the line the other ends on), and no
LATER candidate contains its lines and weighs more. (Earlier/later candidates that were themselves
dropped cannot hurt either; the hypotheses do not need to know.) -/
theorem retain_not_dominated {C : Type} (N : NumEnv C) (cands : List (Match C)) (i : Nat) (c : Match C)
    (hi : cands[i]? = some c)
    (hearlier : ∀ j o, cands[j]? = some o → j < i →
      (contains c o = true → heavier N o c = false) ∧
      (contains c o = false → overlaps c o = true → c.startLine = o.endLine))
    (hlater : ∀ j x, cands[j]? = some x → i < j → contains x c = true → heavier N x c = false) :
    (retainPass N cands)[i]? = some true :=
  retain_not_dominated' N cands i c hi (fun j o ho hj => hearlier j o ho hj)
    (fun j x hx hj hc => hlater j x hx hj hc)

/-- the overlap filter keeps a candidate that shares no line with any other candidate (neither
contains nor overlaps one, nor is contained or overlapped by one), wherever it stands in the
sorted list -/
theorem retain_unconflicted {C : Type} (N : NumEnv C) (cands : List (Match C)) (i : Nat) (c : Match C)
    (hi : cands[i]? = some c)
    (hno : ∀ j o, cands[j]? = some o → j ≠ i →
      contains c o = false ∧ overlaps c o = false ∧ contains o c = false ∧ overlaps o c = false) :
    (retainPass N cands)[i]? = some true :=
  retain_unconflicted' N cands i c hi hno

end LC.V2Match
