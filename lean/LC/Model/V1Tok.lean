/-
Model of /repo/stringclassifier/searchset/tokenizer/tokenizer.go `Tokenize`
(as repaired: a token's text is the input's bytes) and of
`MatchRanges.TargetRange` (searchset.go).
Bytes in, (text, offset) tokens out; rune classes are parameters.
Core Lean only.
-/
import LC.Model.Utf8

namespace LC.V1Tok
open LC.Utf8

structure Tok where
  text : List UInt8
  offset : Nat
deriving Repr, BEq, DecidableEq

structure Classes where
  isSpace : Rune → Bool
  isPunct : Rune → Bool

/-- the scan loop: `rest` = s[i:], `i` the byte offset, `cur` the word being accumulated
(`none` = Offset -1), `acc` the tokens so far (in order). -/
def scan (C : Classes) : Nat → List UInt8 → Nat → Option Tok → List Tok → List Tok
  | 0, _, _, cur, acc => acc ++ cur.toList
  | fuel + 1, rest, i, cur, acc =>
    match rest with
    | [] => acc ++ cur.toList
    | _ :: _ =>
      let rw := decodeRune rest
      let size := max 1 rw.2
      let bytes := rest.take size
      let rest' := rest.drop size
      if C.isSpace rw.1 then
        scan C fuel rest' (i + size) none (acc ++ cur.toList)
      else if C.isPunct rw.1 then
        scan C fuel rest' (i + size) none (acc ++ cur.toList ++ [{ text := encodeRune rw.1, offset := i }])
      else
        let cur' : Tok := match cur with
          | none => { text := bytes, offset := i }
          | some t => { t with text := t.text ++ bytes }
        scan C fuel rest' (i + size) (some cur') acc

def tokenize (C : Classes) (s : List UInt8) : List Tok := scan C (s.length + 1) s 0 none []

/-- what C17 asks of a tokenization of `s` -/
def Faithful (s : List UInt8) (ts : List Tok) : Prop :=
  (∀ t ∈ ts, t.text ≠ [] ∧ (s.drop t.offset).take t.text.length = t.text ∧ t.offset + t.text.length ≤ s.length) ∧
  ts.Pairwise (fun a b => a.offset + a.text.length ≤ b.offset)

/-- `TargetRange`: byte range spanned by token range [ts, te) -/
def targetRange (toks : List Tok) (ts te : Nat) : Option (Nat × Nat) :=
  match toks[ts]?, toks[te - 1]? with
  | some a, some b => some (a.offset, b.offset + b.text.length)
  | _, _ => none   -- Go: index out of range panic

end LC.V1Tok
