/-
A small interleaving semantics for C09 and C14: N threads, each a sequence of
actions on shared locations and one mutex, executed in any interleaving that
respects the mutex.  Happens-before = program order ∪ (unlock → every later
lock), transitively.  A data race = two conflicting accesses (same location,
different threads, at least one a write) not ordered by happens-before.

This carries the LOGIC of the two concurrency properties (read-only sharing;
write-once under the lock).  That the Go code's footprint has this shape is
extracted from the source (LC/Gen/V1Protocol) or monitored (race detector,
snapshots); the Go memory model itself is outside the model.
Core Lean only.
-/
namespace LC.Conc

inductive Act where
  | rd (x : Nat)                 -- read location x
  | wr (x : Nat) (v : Nat)       -- write v to location x
  | lock
  | unlock
deriving Repr, BEq, DecidableEq

/-- an event of an execution: thread id and action -/
structure Ev where
  tid : Nat
  act : Act
deriving Repr, BEq, DecidableEq

abbrev Trace := List Ev

/-- the sub-sequence of thread `t` -/
def proj (tr : Trace) (t : Nat) : List Act := (tr.filter (·.tid = t)).map (·.act)

/-- `tr` is an interleaving of the thread programs `progs` (thread i runs progs[i]) -/
def Interleaves (tr : Trace) (progs : List (List Act)) : Prop :=
  (∀ e ∈ tr, e.tid < progs.length) ∧ ∀ t, t < progs.length → proj tr t = progs.getD t []

/-- mutex discipline: replaying the trace, `lock` only when free, `unlock` only by the holder -/
def mutexOK : Trace → Option Nat → Bool
  | [], _ => true
  | e :: rest, holder =>
    match e.act with
    | .lock => holder.isNone && mutexOK rest (some e.tid)
    | .unlock => holder == some e.tid && mutexOK rest none
    | _ => mutexOK rest holder

/-- value of location x after the trace prefix (initial store `init`) -/
def storeAfter (init : Nat → Nat) : Trace → Nat → Nat
  | [], x => init x
  | e :: rest, x =>
    match e.act with
    | .wr y v => storeAfter (fun z => if z = y then v else init z) rest x
    | _ => storeAfter init rest x

/-- what the i-th event reads, if it is a read -/
def readValue (init : Nat → Nat) (tr : Trace) (i : Nat) : Option Nat :=
  match tr[i]? with
  | some ⟨_, .rd x⟩ => some (storeAfter init (tr.take i) x)
  | _ => none

def isAccess (a : Act) (x : Nat) : Bool :=
  match a with
  | .rd y => y = x
  | .wr y _ => y = x
  | _ => false

def isWrite (a : Act) : Bool :=
  match a with
  | .wr _ _ => true
  | _ => false

/-- direct happens-before edges between positions i < j of the trace -/
def hbEdge (tr : Trace) (i j : Nat) : Prop :=
  i < j ∧ ∃ a b, tr[i]? = some a ∧ tr[j]? = some b ∧
    (a.tid = b.tid ∨ (a.act = .unlock ∧ b.act = .lock))

/-- happens-before: reflexive-transitive closure of the edges -/
inductive HB (tr : Trace) : Nat → Nat → Prop
  | edge {i j} : hbEdge tr i j → HB tr i j
  | trans {i j k} : HB tr i j → HB tr j k → HB tr i k

/-- a data race on location x -/
def Race (tr : Trace) (x : Nat) : Prop :=
  ∃ i j a b, i < j ∧ tr[i]? = some a ∧ tr[j]? = some b ∧ a.tid ≠ b.tid ∧
    isAccess a.act x = true ∧ isAccess b.act x = true ∧ (isWrite a.act = true ∨ isWrite b.act = true) ∧
    ¬ HB tr i j

/-- no event of the trace writes location x (C09: Match only reads the corpus) -/
def NoWrites (tr : Trace) (x : Nat) : Prop :=
  ∀ e ∈ tr, ¬ (isWrite e.act = true ∧ isAccess e.act x = true)

/-- holder after a prefix, by folding -/
def holderFold (tr : Trace) (i : Nat) : Option Nat :=
  (tr.take i).foldl (fun h e => match e.act with
    | .lock => some e.tid
    | .unlock => none
    | _ => h) none

/-- The lazy-initialisation protocol of C14, as a property of traces (location x, nil = 0):
check-and-set happens under the lock, every completed critical section leaves x set, and a
thread reads x outside the lock only after a critical section of its own. This is what
  mu.Lock(); if x == nil { x = new }; mu.Unlock(); … use x …
does in every thread. -/
structure Protocol (init : Nat → Nat) (tr : Trace) (x : Nat) : Prop where
  mutex : mutexOK tr none = true
  nil0 : init x = 0
  w1 : ∀ i t v, tr[i]? = some ⟨t, .wr x v⟩ →
        v ≠ 0 ∧ holderFold tr i = some t ∧ storeAfter init (tr.take i) x = 0
  w2 : ∀ i t, tr[i]? = some ⟨t, .unlock⟩ → storeAfter init (tr.take i) x ≠ 0
  r : ∀ i t, tr[i]? = some ⟨t, .rd x⟩ → holderFold tr i ≠ some t →
        ∃ j, j < i ∧ tr[j]? = some ⟨t, .unlock⟩

end LC.Conc
