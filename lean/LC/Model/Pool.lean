/-
The worker pool of identify_license's backend (ClassifyLicenses): every worker, when it is done,
hands its task slot back (`task <- true`) and signals completion (`wg.Done()`), in the order the
source gives (LC/Gen/CliProtocol.analyzeDefer, regenerated from the AST); one closer goroutine
waits for all completions (`wg.Wait()`) and then closes the task channel.  A send on a closed
channel panics.  Traces of n workers, each performing its two actions in program order, and the
closer performing `close` only when every worker has signalled completion.
Core Lean only.
-/
namespace LC.Pool

inductive Act where
  | send (w : Nat)      -- worker w: task <- true
  | done (w : Nat)      -- worker w: wg.Done()
  | close               -- closer: close(task), enabled once wg.Wait() returned
deriving Repr, BEq, DecidableEq

/-- order of a worker's two deferred actions -/
inductive Order where
  | sendThenDone | doneThenSend
deriving Repr, BEq, DecidableEq

def orderOf : List String → Option Order
  | ["send", "done"] => some .sendThenDone
  | ["done", "send"] => some .doneThenSend
  | _ => none

/-- position of the first occurrence -/
def pos (tr : List Act) (a : Act) : Option Nat :=
  let i := tr.findIdx (fun x => decide (x = a))
  if i < tr.length then some i else none

/-- `tr` is an execution of n workers with the given order and the closer:
every worker's two actions occur exactly once, in program order; `close` occurs at most once
and only after every worker's `done`. -/
structure Exec (o : Order) (n : Nat) (tr : List Act) : Prop where
  nodup : tr.Nodup
  workers : ∀ w, w < n → ∃ i j, pos tr (.send w) = some i ∧ pos tr (.done w) = some j ∧
    (match o with | .sendThenDone => i < j | .doneThenSend => j < i)
  onlyWorkers : ∀ a ∈ tr, match a with | .send w => w < n | .done w => w < n | .close => True
  closeAfterDone : ∀ k, pos tr .close = some k → ∀ w, w < n → ∃ j, pos tr (.done w) = some j ∧ j < k

/-- a send after the close: the panic "send on closed channel" -/
def SendAfterClose (tr : List Act) : Prop :=
  ∃ k i w, pos tr .close = some k ∧ pos tr (.send w) = some i ∧ k < i

end LC.Pool
