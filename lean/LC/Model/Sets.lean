/-
Model of /repo/internal/sets/stringset.go and
/repo/stringclassifier/internal/sets/intset.go (the two files are the same
code over `string` resp. `int`).

A Go `map[T]present` is modelled as the duplicate-free list of its keys.
Iterating a Go map visits the keys in an unspecified order: every `for e :=
range m` of the Go code is modelled as a fold over `en.f keys` where `en` is an
ARBITRARY enumeration (any permutation), so that independence from the
iteration order is a theorem and not an artefact of the model.
A nil `*StringSet` argument is `none`.
Core Lean only.
-/
namespace LC.Sets

variable {α : Type} [DecidableEq α]

abbrev S (α : Type) := List α

/-- an arbitrary map-iteration order -/
structure Enum (α : Type) where
  f : List α → List α
  perm : ∀ l, (f l).Perm l

def Enum.id : Enum α := ⟨fun l => l, fun _ => List.Perm.refl _⟩
def Enum.rev : Enum α := ⟨List.reverse, fun l => List.reverse_perm l⟩

/-- `s.set[e] = present{}` -/
def put (s : S α) (e : α) : S α := if e ∈ s then s else s ++ [e]

/-- `Insert(elements...)` -/
def insert (s : S α) (es : List α) : S α := es.foldl put s

/-- `NewStringSet(elements...)` -/
def new (es : List α) : S α := insert [] es

/-- `Delete(elements...)` : `delete(s.set, e)` for each -/
def delete (s : S α) (es : List α) : S α := es.foldl (fun r e => r.erase e) s

/-- `Copy()`; the receiver may be nil -/
def copy (en : Enum α) (s : Option (S α)) : S α :=
  match s with
  | none => []
  | some s => (en.f s).foldl put []

/-- `Intersect(other)`: iterate the smaller map, probe the larger -/
def intersect (en : Enum α) (s : S α) (other : Option (S α)) : S α :=
  match other with
  | none => []
  | some o =>
    let a := if o.length < s.length then o else s
    let b := if o.length < s.length then s else o
    (en.f a).foldl (fun r e => if e ∈ b then put r e else r) []

/-- `Disjoint(other)` (the early exit does not change the answer) -/
def disjoint (en : Enum α) (s : S α) (other : Option (S α)) : Bool :=
  match other with
  | none => true
  | some o =>
    if o.length = 0 ∨ s.length = 0 then true
    else
      let a := if o.length < s.length then o else s
      let b := if o.length < s.length then s else o
      !(en.f a).any (fun e => decide (e ∈ b))

/-- `Difference(other)` -/
def difference (en : Enum α) (s : S α) (other : Option (S α)) : S α :=
  match other with
  | none => copy en (some s)
  | some o => (en.f s).foldl (fun r e => if e ∈ o then r else put r e) []

/-- `Unique(other)` (symmetric difference) -/
def unique (en : Enum α) (s : S α) (other : Option (S α)) : S α :=
  match other with
  | none => copy en (some s)
  | some o =>
    let sNotInOther := difference en s (some o)
    let otherNotInS := difference en o (some s)
    (en.f otherNotInS).foldl put sNotInOther

/-- `Equal(other)`; both receiver and argument may be nil -/
def equal (en : Enum α) (s other : Option (S α)) : Bool :=
  match s, other with
  | none, none => true
  | none, some _ => false
  | some _, none => false
  | some s, some o =>
    if s.length ≠ o.length then false
    else (en.f s).all (fun e => decide (e ∈ o))

/-- `Union(other)` -/
def union (en : Enum α) (s : S α) (other : Option (S α)) : S α :=
  match other with
  | none => copy en (some s)
  | some o => (en.f o).foldl put (copy en (some s))

def contains (s : S α) (e : α) : Bool := decide (e ∈ s)
def len (s : S α) : Nat := s.length
def empty (s : S α) : Bool := s.length = 0
/-- `Elements()`: "in no particular order" -/
def elements (en : Enum α) (s : S α) : List α := en.f s

def WF (s : S α) : Prop := s.Nodup
def WFo : Option (S α) → Prop
  | none => True
  | some s => WF s
/-- membership with nil read as the empty set -/
def memo (x : α) : Option (S α) → Prop
  | none => False
  | some s => x ∈ s

end LC.Sets
