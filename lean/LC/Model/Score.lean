/-
Model of /repo/v2/diff.go (diffRange, textLength, wordLen) and
/repo/v2/scoring.go (diffLevenshteinWord, score offsets) at the level of word
lists. A diff segment's text is a list of words (in Go: the words joined by one
space; `wordLen` counts them because no dictionary word contains a space or is
empty — see LC/Model/V2Tok for that invariant and the harness check).

go-diff's DiffMainRunes(text1 = unknown span, text2 = known document):
  Equal  : in both;  Delete : only in text1 (unknown);  Insert : only in text2 (known).
Core Lean only.
-/
import LC.Spec.Lev

namespace LC.Score
open LC.Lev

inductive DOp where
  | eq | ins | del
deriving Repr, BEq, DecidableEq

structure Diff (ω : Type) where
  op : DOp
  words : List ω
deriving Repr, BEq, DecidableEq

variable {ω : Type} [DecidableEq ω]

/-- text1 of a script: Equal and Delete segments concatenated -/
def src : List (Diff ω) → List ω
  | [] => []
  | d :: ds => (if d.op = .ins then [] else d.words) ++ src ds

/-- text2 of a script: Equal and Insert segments concatenated -/
def dst : List (Diff ω) → List ω
  | [] => []
  | d :: ds => (if d.op = .del then [] else d.words) ++ dst ds

/-- `DiffSpec.valid`: the script leads from `u` to `k`, all segments non-empty. -/
def Valid (ds : List (Diff ω)) (u k : List ω) : Prop :=
  src ds = u ∧ dst ds = k ∧ ∀ d ∈ ds, d.words ≠ []

/-- `diffLevenshteinWord`, written with the Go loop's accumulators. -/
def levWordAux : List (Diff ω) → (lev ins del : Nat) → Nat
  | [], l, i, d => l + max i d
  | x :: xs, l, i, d =>
    match x.op with
    | .ins => levWordAux xs l (i + x.words.length) d
    | .del => levWordAux xs l i (d + x.words.length)
    | .eq  => levWordAux xs (l + max i d) 0 0

def levWord (ds : List (Diff ω)) : Nat := levWordAux ds 0 0 0

/-- `textLength` -/
def textLength (ds : List (Diff ω)) : Nat := (ds.map (·.words.length)).sum

/-- `diffRange(known, diffs)`: the Go loop over `end`, comparing what has been
seen of text2 (as a word list) with the known text. `seen` is the accumulated
Equal+Insert words. Returns (start, end). The Go code compares strings
(`seen[:len(seen)-1] == known`, guarded by `len(seen) > 1`); on word lists this
is `seen ≠ [] ∧ seen = known` — the correspondence check compares the two. -/
def diffRangeAux (known : List ω) : List (Diff ω) → (idx : Nat) → (start : Option Nat) →
    (seen : List ω) → Nat × Nat
  | [], idx, start, _ => (start.getD 0, idx)
  | d :: ds, idx, start, seen =>
    if seen ≠ [] ∧ seen = known then (start.getD 0, idx)
    else if d.op = .del then diffRangeAux known ds (idx + 1) start seen
    else diffRangeAux known ds (idx + 1) (some (start.getD idx)) (seen ++ d.words)

def diffRange (known : List ω) (ds : List (Diff ω)) : Nat × Nat :=
  diffRangeAux known ds 0 none []

/-- What `score` computes from a script when no veto fires:
(distance, startOffset, endOffset). -/
def scoreOffsets (known : List ω) (ds : List (Diff ω)) : Nat × Nat × Nat :=
  let (s, e) := diffRange known ds
  (levWord ((ds.take e).drop s), textLength (ds.take s), textLength (ds.drop e))

end LC.Score
