import LC.Gen.HtmlEntities

/-!
# Executable model of Go's `html.UnescapeString` (go1.23, `html/escape.go`)

`unescapeBytes` works on the *bytes* of the Go string.  Everything is a total
function defined by structural recursion (plus one fuel-bounded binary search).

Relation to the Go code.  Go copies `s` into `b` and rewrites `b` in place with
two cursors `dst <= src`; `unescapeEntity` reads `b[src:]`.  Because no
replacement is ever longer than the text it replaces (checked for the named
entities by `entity_gen.go`; for numeric references at least 4 bytes are
consumed when 1–2 bytes are produced, etc.) the bytes `b[src:]` are always still
equal to `s[src:]`, so the in-place algorithm is the same as the functional
one below: copy bytes up to the next `&`, call `unescapeEntity` on the suffix
starting at that `&`, emit its output, skip the bytes it consumed, repeat.
-/

namespace LC.Html

open LC.Gen.Html

abbrev Byte := UInt8

/-! ## Byte classes -/

def isDigit (c : Byte) : Bool := 0x30 ≤ c && c ≤ 0x39          -- '0'..'9'
def isLowerHex (c : Byte) : Bool := 0x61 ≤ c && c ≤ 0x66       -- 'a'..'f'
def isUpperHex (c : Byte) : Bool := 0x41 ≤ c && c ≤ 0x46       -- 'A'..'F'
def isLower (c : Byte) : Bool := 0x61 ≤ c && c ≤ 0x7A          -- 'a'..'z'
def isUpper (c : Byte) : Bool := 0x41 ≤ c && c ≤ 0x5A          -- 'A'..'Z'
def isAlnum (c : Byte) : Bool := isLower c || isUpper c || isDigit c

def amp : Byte := 0x26     -- '&'
def hash : Byte := 0x23    -- '#'
def semi : Byte := 0x3B    -- ';'

/-! ## `utf8.EncodeRune`

The argument is the value of a Go `rune` (an `int32`), as an `Int`.
Go switches on `uint32(r)`: a negative `r` becomes `> MaxRune` and is encoded
as `RuneError` (U+FFFD), like surrogates and values above U+10FFFF. -/

def encodeNat (r : Nat) : List Byte :=
  if r ≤ 0x7F then
    [UInt8.ofNat r]
  else if r ≤ 0x7FF then
    [UInt8.ofNat (0xC0 + r / 64), UInt8.ofNat (0x80 + r % 64)]
  else if r > 0x10FFFF || (0xD800 ≤ r && r ≤ 0xDFFF) then
    [0xEF, 0xBF, 0xBD]
  else if r ≤ 0xFFFF then
    [UInt8.ofNat (0xE0 + r / 4096), UInt8.ofNat (0x80 + r / 64 % 64), UInt8.ofNat (0x80 + r % 64)]
  else
    [UInt8.ofNat (0xF0 + r / 262144), UInt8.ofNat (0x80 + r / 4096 % 64),
     UInt8.ofNat (0x80 + r / 64 % 64), UInt8.ofNat (0x80 + r % 64)]

def encodeRune (r : Int) : List Byte :=
  if r < 0 then [0xEF, 0xBF, 0xBD] else encodeNat r.toNat

/-! ## Entity tables: Go map lookup (`0` when the key is absent) -/

/-- Binary search for `key` in the sorted array `a`, on the half-open index
range `[lo, hi)`.  `fuel` bounds the number of halvings. -/
def bsearch {α : Type} (a : Array (String × α)) (key : String) : Nat → Nat → Nat → Option α
  | 0, _, _ => none
  | fuel + 1, lo, hi =>
    if lo < hi then
      let mid := (lo + hi) / 2
      match a[mid]? with
      | none => none
      | some (k, v) =>
        if key < k then bsearch a key fuel lo mid
        else if k < key then bsearch a key fuel (mid + 1) hi
        else some v
    else none

def lookup {α : Type} (a : Array (String × α)) (key : String) : Option α :=
  bsearch a key (a.size + 1) 0 a.size

/-- `true` iff the keys of `a` are strictly increasing (so `bsearch` is exact). -/
def sortedKeys {α : Type} (a : Array (String × α)) : Bool :=
  let rec go : List (String × α) → Bool
    | [] => true
    | [_] => true
    | x :: y :: t => decide (x.1 < y.1) && go (y :: t)
  go a.toList

/-- A name made of ASCII bytes as a `String`.  (Only ever applied to bytes that
passed `isAlnum` or are `';'`.) -/
def nameString (name : List Byte) : String :=
  String.ofList (name.map fun b => Char.ofNat b.toNat)

/-- Go: `entity[string(name)]` (the zero value `0` if absent). -/
def entityLookup (name : List Byte) : Nat :=
  (lookup entities (nameString name)).getD 0

/-- Go: `entity2[string(name)]` (the zero value `[0, 0]` if absent). -/
def entity2Lookup (name : List Byte) : Nat × Nat :=
  (lookup entities2 (nameString name)).getD (0, 0)

/-! ## Numeric character references -/

/-- Go's `rune` is `int32`; `x` is kept as its two's-complement bit pattern,
a natural number `< 2^32`. -/
def wrap32 (n : Nat) : Nat := n % 4294967296

/-- Signed (`int32`) value of a bit pattern `< 2^32`. -/
def toSigned (x : Nat) : Int :=
  if x < 2147483648 then (x : Int) else (x : Int) - 4294967296

/-- Value of the digit `c` in the given base, if it is one
(`'0'..'9'`, and for hex also `'a'..'f'`, `'A'..'F'`). -/
def digitVal (hex : Bool) (c : Byte) : Option Nat :=
  if isDigit c then some (c.toNat - 0x30)
  else if hex && isLowerHex c then some (c.toNat - 0x61 + 10)
  else if hex && isUpperHex c then some (c.toNat - 0x41 + 10)
  else none

/-- The digit loop of `unescapeEntity`.  `l` is `s[i:]` on entry.  Returns the
final accumulator (as a 32-bit pattern) and the number of bytes consumed:
all leading digits, plus one if they are followed by `';'`.
`x = base*x + digit` is computed with `int32` wrap-around. -/
def scanNum (hex : Bool) : List Byte → Nat → Nat × Nat
  | [], x => (x, 0)
  | c :: t, x =>
    match digitVal hex c with
    | some d =>
      let r := scanNum hex t (wrap32 ((if hex then 16 else 10) * x + d))
      (r.1, r.2 + 1)
    | none => if c == semi then (x, 1) else (x, 0)

/-- Post-processing of the code point of a numeric reference
(signed comparisons, as in Go). -/
def fixNumeric (x : Int) : Int :=
  if 0x80 ≤ x && x ≤ 0x9F then
    (replacementTable.getD (x - 0x80).toNat 0 : Nat)
  else if x == 0 || (0xD800 ≤ x && x ≤ 0xDFFF) || x > 0x10FFFF then
    0xFFFD
  else x

/-- `rest` is `s[2:]` where `s = "&#" ++ rest`.  Result: output bytes and number
of bytes of `s` consumed. -/
def unescapeNumeric (rest : List Byte) : List Byte × Nat :=
  match rest with
  | [] => ([amp], 1)              -- len(s) <= 3
  | [_] => ([amp], 1)             -- len(s) <= 3
  | c :: t =>
    let hex := c == 0x78 || c == 0x58        -- 'x' / 'X'
    let start := if hex then 3 else 2
    let r := scanNum hex (if hex then t else c :: t) 0
    let i := start + r.2
    if i ≤ 3 then ([amp], 1)      -- "No characters matched."
    else (encodeRune (fixNumeric (toSigned r.1)), i)

/-! ## Named character references -/

/-- Number of bytes consumed by the name loop: all leading ASCII
alphanumerics, plus one if they are followed by `';'`. -/
def scanName : List Byte → Nat
  | [] => 0
  | c :: t => if isAlnum c then scanName t + 1 else if c == semi then 1 else 0

/-- Go: `for j := maxLen; j > 1; j-- { if x := entity[name[:j]]; x != 0 { … } }`.
Returns the rune and `j`. -/
def prefixLoop (name : List Byte) : Nat → Option (Nat × Nat)
  | 0 => none
  | 1 => none
  | j + 2 =>
    let x := entityLookup (name.take (j + 2))
    if x != 0 then some (x, j + 2) else prefixLoop name (j + 1)

/-- `rest` is `s[1:]` where `s = "&" ++ rest` and `rest` does not start with `'#'`. -/
def unescapeNamed (rest : List Byte) : List Byte × Nat :=
  let n := scanName rest
  let name := rest.take n            -- entityName = s[1:i], i = n + 1
  if n == 0 then ([amp], 1)
  else
    let x := entityLookup name
    if x != 0 then (encodeNat x, n + 1)
    else
      let y := entity2Lookup name
      if y.1 != 0 then (encodeNat y.1 ++ encodeNat y.2, n + 1)
      else
        match prefixLoop name (min (n - 1) longestEntityWithoutSemicolon) with
        | some (x, j) => (encodeNat x, j + 1)
        | none => (amp :: name, n + 1)

/-- Go: `unescapeEntity`.  `rest` is `s[1:]` where `s[0] == '&'`.
Returns the bytes written and the number of bytes of `s` consumed (`≥ 1`). -/
def unescapeEntity (rest : List Byte) : List Byte × Nat :=
  match rest with
  | [] => ([amp], 1)                 -- len(s) <= 1
  | c :: t => if c == hash then unescapeNumeric t else unescapeNamed (c :: t)

/-! ## `UnescapeString` -/

/-- `skip` = number of input bytes still to be dropped because the last
`unescapeEntity` call consumed them. -/
def unescapeAux : Nat → List Byte → List Byte
  | _, [] => []
  | skip + 1, _ :: t => unescapeAux skip t
  | 0, c :: t =>
    if c == amp then
      let r := unescapeEntity t
      r.1 ++ unescapeAux (r.2 - 1) t
    else c :: unescapeAux 0 t

/-- Go: `html.UnescapeString` on the bytes of the string. -/
def unescapeBytes (s : List Byte) : List Byte := unescapeAux 0 s

/-! ## Rune-level wrapper -/

/-- UTF-8 encoding of a word of code points (each encoded like `utf8.EncodeRune`). -/
def encodeRunes (w : List Nat) : List Byte := w.flatMap encodeNat

def isCont (b : Byte) : Bool := 0x80 ≤ b && b ≤ 0xBF

/-- UTF-8 decoding like Go's `[]rune(string(bytes))`: every byte that does not
start a well-formed (shortest-form, non-surrogate, `≤ U+10FFFF`) sequence
becomes U+FFFD and is skipped alone.  `skip` plays the same role as in
`unescapeAux`. -/
def decodeAux : Nat → List Byte → List Nat
  | _, [] => []
  | skip + 1, _ :: t => decodeAux skip t
  | 0, b0 :: t =>
    -- (a thunk: a strict `let` here would decode the tail twice at every byte)
    let bad := fun (_ : Unit) => 0xFFFD :: decodeAux 0 t
    if b0 < 0x80 then b0.toNat :: decodeAux 0 t
    else if 0xC2 ≤ b0 && b0 ≤ 0xDF then
      match t with
      | b1 :: _ =>
        if isCont b1 then ((b0.toNat - 0xC0) * 64 + (b1.toNat - 0x80)) :: decodeAux 1 t else bad ()
      | _ => bad ()
    else if 0xE0 ≤ b0 && b0 ≤ 0xEF then
      match t with
      | b1 :: b2 :: _ =>
        let lo : Byte := if b0 == 0xE0 then 0xA0 else 0x80
        let hi : Byte := if b0 == 0xED then 0x9F else 0xBF
        if lo ≤ b1 && b1 ≤ hi && isCont b2 then
          ((b0.toNat - 0xE0) * 4096 + (b1.toNat - 0x80) * 64 + (b2.toNat - 0x80)) :: decodeAux 2 t
        else bad ()
      | _ => bad ()
    else if 0xF0 ≤ b0 && b0 ≤ 0xF4 then
      match t with
      | b1 :: b2 :: b3 :: _ =>
        let lo : Byte := if b0 == 0xF0 then 0x90 else 0x80
        let hi : Byte := if b0 == 0xF4 then 0x8F else 0xBF
        if lo ≤ b1 && b1 ≤ hi && isCont b2 && isCont b3 then
          ((b0.toNat - 0xF0) * 262144 + (b1.toNat - 0x80) * 4096 + (b2.toNat - 0x80) * 64
            + (b3.toNat - 0x80)) :: decodeAux 3 t
        else bad ()
      | _ => bad ()
    else bad ()

def decodeRunes (s : List Byte) : List Nat := decodeAux 0 s

/-- `html.UnescapeString` on a word of Unicode scalar values (valid UTF-8 text):
`[]rune(html.UnescapeString(string(w)))`. -/
def unescapeRunes (w : List Nat) : List Nat := decodeRunes (unescapeBytes (encodeRunes w))

/-- Sanity check of the generated tables (evaluated by `Main` at start-up). -/
def tablesOk : Bool :=
  sortedKeys entities && sortedKeys entities2 &&
  entities.size == entitiesSize && entities2.size == entities2Size &&
  replacementTable.size == 32

end LC.Html
