/-
Model of `Matches.uniquify` (stringclassifier/classifier.go, as repaired): the matches, already
sorted best first, are walked in order; a match is dropped when it begins inside the byte range
[offset, offset+extent) of a match kept before it, otherwise it is kept and its range recorded.
Core Lean only.
-/
import LC.Model.V1Glue

namespace LC.V1Glue

/-- does `m` begin inside the (half-open) range `r = (offset, extent)`? -/
def beginsInside (m : M) (r : Nat × Nat) : Bool := decide (r.1 ≤ m.offset) && decide (m.offset < r.1 + r.2)

/-- the loop; `matched` = the ranges of the matches kept so far -/
def uniquifyGo : List (Nat × Nat) → List M → List M
  | _, [] => []
  | matched, m :: ms =>
    if matched.any (beginsInside m) then uniquifyGo matched ms
    else m :: uniquifyGo (matched ++ [(m.offset, m.extent)]) ms

def uniquify (ms : List M) : List M := uniquifyGo [] ms

end LC.V1Glue
