/-
Model of Go's `container/heap` (up, down, Push, Pop, Remove, Fix) driving the
`pqHeap` adapter of /repo/stringclassifier/internal/pq/priority.go.

An element of the Go queue is a pointer; `setIndex(x, i)` stores `i` in the
object `x` points to.  The model keeps that last reported index inside the
element record (`E.index`), so "the indices reported through setIndex are
accurate" is the statement `∀ i, a[i].index = i`.

Core Lean only (this file is linked into the driver executable).
-/
namespace LC.Heap

structure E (α : Type) where
  val   : α
  index : Nat
deriving Repr, BEq, DecidableEq

variable {α : Type}

/-- `pqHeap.Swap(i, j)` followed by the two `setIndex` calls. Out-of-range
indices panic in Go; the model leaves the array unchanged (callers guard). -/
def swap (a : Array (E α)) (i j : Nat) : Array (E α) :=
  if h : i < a.size ∧ j < a.size then
    let x := a[i]'h.1
    let y := a[j]'h.2
    let a1 := a.set i y (h.1)
    let a2 := a1.set j x (by simp [a1]; exact h.2)
    -- setIndex(h.a[i], i); setIndex(h.a[j], j)
    let a3 := a2.modify i (fun e => { e with index := i })
    a3.modify j (fun e => { e with index := j })
  else a

@[simp] theorem size_swap (a : Array (E α)) (i j : Nat) : (swap a i j).size = a.size := by
  unfold swap; split <;> simp

/-- `heap.up(h, j)`. Go computes `i := (j-1)/2` on signed ints, so `j = 0`
gives `i = 0 = j` and the loop stops. -/
def up (less : α → α → Bool) (a : Array (E α)) (j : Nat) : Array (E α) :=
  if hj : j = 0 then a
  else
    let i := (j - 1) / 2
    if h : j < a.size then
      have hi : i < a.size := by omega
      if less (a[j]'h).val (a[i]'hi).val then up less (swap a i j) i else a
    else a
termination_by j
decreasing_by omega

/-- loop of `heap.down(h, i0, n)`; returns the array and the final `i`. -/
def downLoop (less : α → α → Bool) (a : Array (E α)) (i n : Nat) : Array (E α) × Nat :=
  let j1 := 2 * i + 1
  if h1 : j1 < n ∧ n ≤ a.size then
    let j2 := j1 + 1
    let j := if h2 : j2 < n then
               (if less (a[j2]'(by omega)).val (a[j1]'(by omega)).val then j2 else j1)
             else j1
    have hjn : j < n := by
      simp only [j]; split
      · split <;> omega
      · omega
    if less (a[j]'(by omega)).val (a[i]'(by omega)).val then
      downLoop less (swap a i j) j n
    else (a, i)
  else (a, i)
termination_by n - i
decreasing_by
  simp only [j] at *
  split <;> (try split) <;> omega

/-- `heap.down(h, i0, n)`: the array afterwards and whether the element moved. -/
def down (less : α → α → Bool) (a : Array (E α)) (i0 n : Nat) : Array (E α) × Bool :=
  let r := downLoop less a i0 n
  (r.1, decide (r.2 > i0))

/-- `Queue.Push(x)`: `pqHeap.Push` (setIndex(x, n); append) then `up(n)`. -/
def push (less : α → α → Bool) (a : Array (E α)) (x : α) : Array (E α) :=
  let a1 := a.push { val := x, index := a.size }
  up less a1 (a1.size - 1)

/-- `Queue.Pop()`; `none` models the Go panic on an empty queue. -/
def pop (less : α → α → Bool) (a : Array (E α)) : Option (Array (E α) × E α) :=
  if h : 0 < a.size then
    let n := a.size - 1
    let a1 := swap a 0 n
    let a2 := (down less a1 0 n).1
    if h2 : 0 < a2.size then some (a2.pop, a2[a2.size - 1]'(by omega)) else none
  else none

/-- `Queue.Remove(i)`; `none` models the Go panic on a bad index. -/
def remove (less : α → α → Bool) (a : Array (E α)) (i : Nat) : Option (Array (E α) × E α) :=
  if h : i < a.size then
    let n := a.size - 1
    let a3 :=
      if n ≠ i then
        let a1 := swap a i n
        let r := down less a1 i n
        if r.2 then r.1 else up less r.1 i
      else a
    if h2 : 0 < a3.size then some (a3.pop, a3[a3.size - 1]'(by omega)) else none
  else none

/-- `Queue.Fix(i)` with the heap array as it is. -/
def fix (less : α → α → Bool) (a : Array (E α)) (i : Nat) : Option (Array (E α)) :=
  if i < a.size then
    let r := down less a i a.size
    some (if r.2 then r.1 else up less r.1 i)
  else none

/-- The caller changes the priority of the element at `i` (through its
pointer) and then calls `Fix(i)`. -/
def setFix (less : α → α → Bool) (a : Array (E α)) (i : Nat) (x : α) : Option (Array (E α)) :=
  if h : i < a.size then
    fix less (a.set i { (a[i]'h) with val := x } h) i
  else none

/-- payload values, in array order -/
def vals (a : Array (E α)) : List α := a.toList.map (·.val)

/-- the heap property w.r.t. a strict comparator -/
def HeapInv (less : α → α → Bool) (a : Array (E α)) : Prop :=
  ∀ j (hj : j < a.size), 0 < j → less (a[j]'hj).val (a[(j - 1) / 2]'(by omega)).val = false

/-- every queued element knows its position -/
def IdxInv (a : Array (E α)) : Prop :=
  ∀ i (hi : i < a.size), (a[i]'hi).index = i

/-- `less` is a strict weak order (what `sort`/`heap` require of `Less`). -/
structure StrictWeak (less : α → α → Bool) : Prop where
  irrefl : ∀ a, less a a = false
  trans : ∀ a b c, less a b = true → less b c = true → less a c = true
  /-- incomparability is transitive (negative transitivity) -/
  ntrans : ∀ a b c, less a b = false → less b c = false → less a c = false

/-- Operations a client can perform on the queue. -/
inductive Op (α : Type) where
  | push (x : α)
  | pop
  | remove (i : Nat)
  | setFix (i : Nat) (x : α)   -- change the priority of the element at `i`, then `Fix(i)`

/-- One step; an operation Go would panic on (empty pop, bad index) is not a
step of a well-formed history and yields `none`. -/
def step (less : α → α → Bool) (a : Array (E α)) : Op α → Option (Array (E α))
  | .push x => some (push less a x)
  | .pop => (pop less a).map (·.1)
  | .remove i => (remove less a i).map (·.1)
  | .setFix i x => setFix less a i x

def run (less : α → α → Bool) : Array (E α) → List (Op α) → Option (Array (E α))
  | a, [] => some a
  | a, op :: ops => (step less a op).bind (fun a' => run less a' ops)

end LC.Heap
