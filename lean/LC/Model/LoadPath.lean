/-
Model of the path arithmetic of `Classifier.LoadLicenses` (/repo/v2/classifier.go,
as repaired): `filepath.Walk` builds each file path as filepath.Join(parent,
name), i.e. Clean(parent + "/" + name) below the root as given;
`filepath.Rel(dir, f)`; split on the separator; files with fewer than three
segments are skipped; the first three segments are category, name, variant.
`filepath.Clean` and `filepath.Rel` (Unix) are modelled from the Go sources at the level of
path components and compared with the real functions by the correspondence run.
Core Lean only.
-/
namespace LC.LoadPath

abbrev Comp := List Char

def splitSlash (s : List Char) : List Comp :=
  let r := s.foldr (fun c (acc : List Comp) =>
    if c = '/' then [] :: acc
    else match acc with
      | [] => [[c]]
      | h :: t => (c :: h) :: t) [[]]
  r

def joinSlash : List Comp → List Char
  | [] => []
  | [c] => c
  | c :: cs => c ++ '/' :: joinSlash cs

def dot : Comp := ['.']
def dotdot : Comp := ['.', '.']

/-- the component stack of Clean: "" and "." vanish, ".." pops (or is kept in a relative path) -/
def cleanComps (rooted : Bool) : List Comp → List Comp → List Comp
  | [], stack => stack.reverse
  | c :: cs, stack =>
    if c = [] ∨ c = dot then cleanComps rooted cs stack
    else if c = dotdot then
      match stack with
      | top :: rest => if top = dotdot then cleanComps rooted cs (dotdot :: stack) else cleanComps rooted cs rest
      | [] => if rooted then cleanComps rooted cs [] else cleanComps rooted cs [dotdot]
    else cleanComps rooted cs (c :: stack)

/-- `filepath.Clean` -/
def clean (p : List Char) : List Char :=
  if p = [] then ['.']
  else
    let rooted := p.head? = some '/'
    let cs := cleanComps rooted (splitSlash p) []
    if rooted then '/' :: joinSlash cs
    else if cs = [] then ['.'] else joinSlash cs

/-- components of a cleaned path, and whether it is rooted -/
def compsOf (isBase : Bool) (p : List Char) : Bool × List Comp :=
  let c := clean p
  -- Go: `if base == "." { base = "" }` — only the base; a target "." stays one element
  if c = ['.'] then (false, if isBase then [] else [dot])
  else if c.head? = some '/' then (true, (splitSlash (c.drop 1)).filter (· ≠ []))
  else (false, splitSlash c)

def stripCommon : List Comp → List Comp → List Comp × List Comp
  | b :: bs, t :: ts => if b = t then stripCommon bs ts else (b :: bs, t :: ts)
  | bs, ts => (bs, ts)

/-- `filepath.Rel(base, targ)`; `none` = error -/
def rel (base targ : List Char) : Option (List Char) :=
  let b := compsOf true base
  let t := compsOf false targ
  if clean targ = clean base then some ['.']
  else if b.1 ≠ t.1 then none
  else
    let r := stripCommon b.2 t.2
    if r.1.head? = some dotdot then none
    else some (joinSlash (r.1.map (fun _ => dotdot) ++ r.2))

/-- path of a file `names` below the walk root `dir`, as Walk constructs it -/
def walkPath (dir : List Char) : List Comp → List Char
  | [] => dir
  | n :: ns => walkPath (clean (dir ++ '/' :: n)) ns

inductive Key where
  | skip                                   -- fewer than three segments
  | key (category name variant : Comp)
  | err                                    -- filepath.Rel failed: LoadLicenses returns the error
deriving Repr, BEq, DecidableEq

/-- what LoadLicenses derives for the file at `names` below `dir` -/
def loadKey (dir : List Char) (names : List Comp) : Key :=
  match rel dir (walkPath dir names) with
  | none => .err
  | some r =>
    match splitSlash r with
    | c :: n :: v :: _ => .key c n v
    | _ => .skip

/-- an ordinary file or directory name -/
def Plain (c : Comp) : Prop := c ≠ [] ∧ c ≠ dot ∧ c ≠ dotdot ∧ '/' ∉ c

end LC.LoadPath
