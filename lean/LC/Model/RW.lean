/-
Readers-writer-lock discipline for one shared location (C14: the map `values` of the v1
`stringclassifier.Classifier`, guarded by `muValues sync.RWMutex`).

Three layers:
 1. `Blk`/`Sk`: the SKELETON of a Go function as extracted from its AST (LC/Gen/V1Locks, regenerated
    on every run): lock operations on the mutex, reads and writes of the location, `defer`red
    releases, returns, jumps (`break`/`continue`), optional blocks (`if` without `else`), two-way
    branches, loops.
 2. `check`: a static checker for skeletons (what "every access to the location happens under the
    lock" means for code with branches, loops, early returns and deferred unlocks), and `Run`: the
    execution paths of a skeleton as action sequences.  Soundness (LC/Proofs/RW): every path of an
    accepted skeleton is a `ThreadOK` action sequence.
 3. Traces of N threads whose action sequences are `ThreadOK`, interleaved in any way the
    readers-writer lock allows (`rwOK`), with the happens-before edges the Go memory model gives
    for `sync.RWMutex` (Unlock → later Lock/RLock; RUnlock → later Lock): no data race (`Race`).

What is NOT modelled: the Go memory model beyond those edges, everything the skeleton does not
mention (other locations), and that the extractor (harness TestVerifDump, go/ast) reports the
skeleton faithfully — the extractor only reports, the checker and the theorems decide.
Core Lean only.
-/
namespace LC.RW

inductive Act where
  | rd | wr | lock | unlock | rlock | runlock
deriving Repr, BEq, DecidableEq, Inhabited

/-- skeleton statements that are not blocks -/
inductive SAct where
  | a (x : Act)
  | deferUnlock        -- `defer mu.Unlock()`
  | deferRUnlock       -- `defer mu.RUnlock()`
  | alias              -- the location escapes the lock region (`m := c.values`): never accepted
  | ret                -- `return`
  | jump               -- `break` / `continue` of the innermost loop
deriving Repr, BEq, DecidableEq, Inhabited

mutual
inductive Sk where
  | s (x : SAct)
  | opt (b : Blk)          -- `if c { b }`, a `case` body: run once or skipped
  | alt (b c : Blk)        -- `if c { b } else { c }`
  | loop (b : Blk)         -- `for … { b }`: zero or more iterations
inductive Blk where
  | nil
  | cons (h : Sk) (t : Blk)
end

/-- lock state of one thread -/
inductive LS where
  | U | R | W
deriving Repr, BEq, DecidableEq, Inhabited

structure St where
  ls : LS
  dfr : Option Act        -- deferred release (`unlock` or `runlock`), run when the function returns
deriving Repr, BEq, DecidableEq, Inhabited

/-- may the function end (return or fall off its end) in this state? -/
def endOK (st : St) : Bool :=
  match st.ls, st.dfr with
  | .U, none => true
  | .W, some .unlock => true
  | .R, some .runlock => true
  | _, _ => false

/-- result of checking: rejected, or the state in which control falls through (`none` when
every path returned or jumped) -/
abbrev Res := Option (Option St)

def stepS (x : SAct) (st le : St) : Res :=
  match x with
  | .a .rd => if st.ls ≠ .U then some (some st) else none
  | .a .wr => if st.ls = .W then some (some st) else none
  | .a .lock => if st.ls = .U ∧ st.dfr = none then some (some { st with ls := .W }) else none
  | .a .rlock => if st.ls = .U ∧ st.dfr = none then some (some { st with ls := .R }) else none
  | .a .unlock => if st.ls = .W ∧ st.dfr = none then some (some { st with ls := .U }) else none
  | .a .runlock => if st.ls = .R ∧ st.dfr = none then some (some { st with ls := .U }) else none
  | .deferUnlock => if st.ls = .W ∧ st.dfr = none then some (some { st with dfr := some .unlock }) else none
  | .deferRUnlock => if st.ls = .R ∧ st.dfr = none then some (some { st with dfr := some .runlock }) else none
  | .alias => none
  | .ret => if endOK st then some none else none
  | .jump => if st = le then some none else none      -- leaves the loop body in the state it was entered

/-- join of two branches -/
def joinRes (a b : Res) : Res :=
  match a, b with
  | some none, r => r
  | r, some none => r
  | some (some x), some (some y) => if x = y then some (some x) else none
  | _, _ => none

mutual
/-- `le` = state at the entry of the innermost enclosing loop body (for `jump`) -/
def checkSk : Sk → St → St → Res
  | .s x, st, le => stepS x st le
  | .opt b, st, le => joinRes (checkBlk b st le) (some (some st))
  | .alt b c, st, le => joinRes (checkBlk b st le) (checkBlk c st le)
  | .loop b, st, _ =>
    -- every iteration starts and ends (falls through or jumps) in `st`; a `return` inside is fine
    match checkBlk b st st with
    | some none => some (some st)
    | some (some st') => if st' = st then some (some st) else none
    | none => none
def checkBlk : Blk → St → St → Res
  | .nil, st, _ => some (some st)
  | .cons h t, st, le =>
    match checkSk h st le with
    | some (some st') => checkBlk t st' le
    | r => r
end

def st0 : St := { ls := .U, dfr := none }

/-- a function skeleton is accepted: checked from the unlocked state, and if control can fall off
the end it does so in a state in which the function may end. At top level there is no enclosing
loop: `le` is a state no rule ever produces (a deferred `rd`), so a `jump` outside a loop is
rejected. -/
def accepts (b : Blk) : Bool :=
  match checkBlk b st0 { ls := .U, dfr := some .rd } with
  | some none => true
  | some (some st) => endOK st
  | none => false

/-! ### execution paths -/

/-- how a path through a block ends -/
inductive Out where
  | fall (st : St)      -- falls through
  | ret                 -- returned (deferred release already performed)
  | jump (st : St)      -- `break`/`continue` of the innermost loop
deriving Repr, BEq, DecidableEq

/-- the actions a return performs: the deferred release, if any -/
def release (st : St) : List Act :=
  match st.dfr with
  | some x => [x]
  | none => []

/-- state changes of single statements (no checking: paths of rejected skeletons exist too) -/
def applyS (x : SAct) (st : St) : St :=
  match x with
  | .a .lock => { st with ls := .W }
  | .a .rlock => { st with ls := .R }
  | .a .unlock => { st with ls := .U }
  | .a .runlock => { st with ls := .U }
  | .deferUnlock => { st with dfr := some .unlock }
  | .deferRUnlock => { st with dfr := some .runlock }
  | _ => st

def actsS (x : SAct) : List Act :=
  match x with
  | .a y => [y]
  | _ => []

mutual
/-- `RunSk k st acts out`: statement `k` started in `st` can perform `acts` and end with `out` -/
inductive RunSk : Sk → St → List Act → Out → Prop
  | ret (st : St) : RunSk (.s .ret) st (release st) .ret
  | jump (st : St) : RunSk (.s .jump) st [] (.jump st)
  | act (x : SAct) (st : St) (h1 : x ≠ .ret) (h2 : x ≠ .jump) :
      RunSk (.s x) st (actsS x) (.fall (applyS x st))
  | optSkip (b : Blk) (st : St) : RunSk (.opt b) st [] (.fall st)
  | optRun (b : Blk) (st : St) (acts : List Act) (o : Out) : RunBlk b st acts o → RunSk (.opt b) st acts o
  | altL (b c : Blk) (st : St) (acts : List Act) (o : Out) : RunBlk b st acts o → RunSk (.alt b c) st acts o
  | altR (b c : Blk) (st : St) (acts : List Act) (o : Out) : RunBlk c st acts o → RunSk (.alt b c) st acts o
  | loopDone (b : Blk) (st : St) : RunSk (.loop b) st [] (.fall st)
  /-- one iteration that falls through or jumps, then the loop again from the resulting state -/
  | loopFall (b : Blk) (st st' : St) (a1 a2 : List Act) (o : Out) :
      RunBlk b st a1 (.fall st') → RunSk (.loop b) st' a2 o → RunSk (.loop b) st (a1 ++ a2) o
  | loopJump (b : Blk) (st st' : St) (a1 a2 : List Act) (o : Out) :
      RunBlk b st a1 (.jump st') → RunSk (.loop b) st' a2 o → RunSk (.loop b) st (a1 ++ a2) o
  | loopRet (b : Blk) (st : St) (a1 : List Act) :
      RunBlk b st a1 .ret → RunSk (.loop b) st a1 .ret
inductive RunBlk : Blk → St → List Act → Out → Prop
  | nil (st : St) : RunBlk .nil st [] (.fall st)
  | consFall (h : Sk) (t : Blk) (st st' : St) (a1 a2 : List Act) (o : Out) :
      RunSk h st a1 (.fall st') → RunBlk t st' a2 o → RunBlk (.cons h t) st (a1 ++ a2) o
  | consRet (h : Sk) (t : Blk) (st : St) (a1 : List Act) :
      RunSk h st a1 .ret → RunBlk (.cons h t) st a1 .ret
  | consJump (h : Sk) (t : Blk) (st st' : St) (a1 : List Act) :
      RunSk h st a1 (.jump st') → RunBlk (.cons h t) st a1 (.jump st')
end

/-- the action sequences one call of the function can perform: a path that returns, or that
falls off the end (the deferred release then runs) -/
def CallActs (b : Blk) (acts : List Act) : Prop :=
  RunBlk b st0 acts .ret ∨ ∃ st a1, RunBlk b st0 a1 (.fall st) ∧ acts = a1 ++ release st

/-! ### what a thread may do -/

/-- replay an action sequence from a lock state: reads under R or W, writes under W, lock
operations well bracketed; result = final lock state -/
def replay : LS → List Act → Option LS
  | l, [] => some l
  | l, x :: rest =>
    match x, l with
    | .rd, .R => replay .R rest
    | .rd, .W => replay .W rest
    | .wr, .W => replay .W rest
    | .lock, .U => replay .W rest
    | .rlock, .U => replay .R rest
    | .unlock, .W => replay .U rest
    | .runlock, .R => replay .U rest
    | _, _ => none

/-- a thread program: starts and ends unlocked, never touches the location outside the lock -/
def ThreadOK (acts : List Act) : Prop := replay .U acts = some .U

/-- what a thread has done so far (a prefix of its program) replays without violation -/
def PrefixOK (acts : List Act) : Prop := (replay .U acts).isSome = true

/-! ### traces -/

structure Ev where
  tid : Nat
  act : Act
deriving Repr, BEq, DecidableEq

abbrev Trace := List Ev

def proj (tr : Trace) (t : Nat) : List Act := (tr.filter (·.tid = t)).map (·.act)

/-- the readers-writer lock allows the trace: `lock` only when no one holds it, `rlock` only when
no writer holds it, releases only by holders -/
def rwOK : Trace → Option Nat → List Nat → Bool
  | [], _, _ => true
  | e :: rest, w, rs =>
    match e.act with
    | .lock => w.isNone && rs.isEmpty && rwOK rest (some e.tid) rs
    | .unlock => w == some e.tid && rwOK rest none rs
    | .rlock => w.isNone && rwOK rest w (e.tid :: rs)
    | .runlock => rs.contains e.tid && rwOK rest w (rs.erase e.tid)
    | _ => rwOK rest w rs

def isAccess (a : Act) : Bool := a == .rd || a == .wr

/-- direct happens-before edges between positions i < j: program order; Unlock → a later Lock or
RLock; RUnlock → a later Lock (Go memory model, sync.RWMutex) -/
def hbEdge (tr : Trace) (i j : Nat) : Prop :=
  i < j ∧ ∃ a b, tr[i]? = some a ∧ tr[j]? = some b ∧
    (a.tid = b.tid ∨ (a.act = .unlock ∧ (b.act = .lock ∨ b.act = .rlock)) ∨ (a.act = .runlock ∧ b.act = .lock))

inductive HB (tr : Trace) : Nat → Nat → Prop
  | edge {i j} : hbEdge tr i j → HB tr i j
  | trans {i j k} : HB tr i j → HB tr j k → HB tr i k

/-- a data race on the location: two accesses by different threads, at least one a write, not
ordered by happens-before -/
def Race (tr : Trace) : Prop :=
  ∃ i j a b, i < j ∧ tr[i]? = some a ∧ tr[j]? = some b ∧ a.tid ≠ b.tid ∧
    isAccess a.act = true ∧ isAccess b.act = true ∧ (a.act = .wr ∨ b.act = .wr) ∧ ¬ HB tr i j

end LC.RW
