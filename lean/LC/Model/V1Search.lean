/-
Model of the post-processing stages of v1 `searchset.FindPotentialMatches`
(stringclassifier/searchset/searchset.go): after `targetMatchedRanges` and
`sort.Sort(matched)`, the list of match ranges goes through
`untangleSourceRanges`, `splitRanges`, `mergeConsecutiveRanges` and, group by
group, `coalesceMatchRanges`.

Value semantics: the Go code works on `[]*MatchRange` and mutates ranges in
place in `mergeConsecutiveRanges`; every range mutated there is the member of
exactly one group (the output of `untangleSourceRanges` never holds two ranges
with the same target range, and `splitRanges` partitions it), so an update of
the element inside the group is the same thing.  Go `int` fields are `Int` here
(`SrcEnd += …` can subtract).  `targetMatchedRanges` itself and `sort.Sort` are
NOT modelled: the harness records the sorted list the real code produced and
the theorems take what they need about it (sorted by TargetStart, every range
non-empty and inside the target's token bounds) as hypotheses that the harness
monitors on every recorded list.  Core Lean only.
-/
namespace LC.V1Search

structure MR where
  ss : Int
  se : Int
  ts : Int
  te : Int
deriving Repr, BEq, DecidableEq, Inhabited

/-- `equalTargetRange` -/
def eqTarget (a b : MR) : Bool := a.ts == b.ts && a.te == b.te

/-! ### untangleSourceRanges -/

/-- the inner `for j := i + 1; …` loop: among the following ranges with the same target range
as `x`, the first whose source start is past `last`'s; returns it and what follows it -/
def findLater (x last : MR) : List MR → Option (MR × List MR)
  | [] => none
  | z :: zs =>
    if eqTarget x z then (if z.ss > last.ss then some (z, zs) else findLater x last zs) else none

/-- the loop body of `untangleSourceRanges` from index `i` on; `last` is `mr[len(mr)-1]`;
returns the ranges appended to `mr`. `fuel` ≥ length of the list. -/
def untangleGo : Nat → MR → List MR → List MR
  | 0, _, _ => []
  | _, _, [] => []
  | fuel + 1, last, x :: rest =>
    if last.ts = x.ts ∧ last.te = x.te then untangleGo fuel last rest      -- already added
    else
      match rest with
      | y :: _ =>
        if eqTarget x y then
          if x.ss > last.ss then x :: untangleGo fuel x rest
          else
            match findLater x last rest with
            | some (z, rest') => z :: untangleGo fuel z rest'              -- `i = j; continue NEXT`
            | none => x :: untangleGo fuel x rest
        else x :: untangleGo fuel x rest
      | [] => [x]

def untangle : List MR → List MR
  | [] => []                                  -- Go: matched[0] panics; never called on an empty list
  | m :: ms => m :: untangleGo ms.length m ms

/-! ### splitRanges -/

/-- `cur` is the group being built (in order) -/
def splitGo (cur : List MR) (last : MR) : List MR → List (List MR)
  | [] => [cur]
  | x :: rest =>
    if last.ss > x.ss then cur :: splitGo [x] x rest
    else splitGo (cur ++ [x]) x rest

def split : List MR → List (List MR)
  | [] => []
  | m :: ms => splitGo [m] m ms

/-! ### mergeConsecutiveRanges -/

/-- the `for k := len(prev) - 1; k > 0; k--` loop: the largest `k ≥ 1` with
`P[k].SrcStart < x.SrcStart && P[k].TargetStart < x.TargetStart` -/
def findK (P : List MR) (x : MR) : Nat → Option Nat
  | 0 => none
  | k + 1 =>
    match P[k + 1]? with
    | some p => if p.ss < x.ss ∧ p.ts < x.ts then some (k + 1) else findK P x k
    | none => findK P x k

/-- the `for j := 1; j < len(matched[i]); j++` loop around it: first `j ≥ 1` for which a `k`
exists; `j` counts from `j0` -/
def findJK (P : List MR) : Nat → List MR → Option (Nat × Nat)
  | _, [] => none
  | j, x :: xs =>
    match findK P x (P.length - 1) with
    | some k => some (j, k)
    | none => findJK P (j + 1) xs

def setLast (l : List MR) (v : MR) : List MR := l.dropLast ++ [v]

/-- one iteration `i` of the outer loop: `mr` is the result so far, `g = matched[i]` -/
def mergeStep (mr : List (List MR)) (g : List MR) : List (List MR) :=
  match mr.getLast?, g with
  | some P, g0 :: gtail =>
    match P.getLast? with
    | some L =>
      if L.te > g0.ts then
        if L.ts < g0.ts then
          let L' : MR := if L.te < g0.te then { L with se := L.se + (g0.te - L.te), te := g0.te } else L
          mr.dropLast ++ [setLast P L' ++ gtail]
        else
          match findJK P 1 gtail with
          | some (j, k) =>
            match P[k]?, g[j]?, g[j - 1]? with
            | some pk, some gj, some gp =>
              let pk' : MR := if pk.te < gj.ts then { pk with se := pk.se + (gp.te - pk.te), te := gp.te } else pk
              mr.dropLast ++ [P.take k ++ [pk'] ++ g.drop j]
            | _, _, _ => mr ++ [g]      -- unreachable: j, k come from the searches above
          | none => mr ++ [g]
      else mr ++ [g]
    | none => mr ++ [g]                 -- unreachable: groups are never empty
  | _, _ => mr ++ [g]                   -- unreachable

def merge : List (List MR) → List (List MR)
  | [] => []
  | g :: gs => gs.foldl mergeStep [g]

/-! ### coalesceMatchRanges -/

def coalesceStep (acc : List MR) (m : MR) : List MR :=
  match acc.getLast? with
  | some c =>
    if m.ss ≤ c.se ∧ m.ss ≥ c.ss then
      setLast acc { ss := c.ss, se := max m.se c.se, ts := min m.ts c.ts, te := max m.te c.te }
    else acc ++ [m]
  | none => acc ++ [m]

def coalesce : List MR → List MR
  | [] => []
  | m :: ms => ms.foldl coalesceStep [m]

/-- everything `FindPotentialMatches` does after `sort.Sort(matched)` -/
def post (sorted : List MR) : List (List MR) :=
  (merge (split (untangle sorted))).map coalesce

/-! ### what the property is about -/

/-- a range is non-empty and inside the token bounds of a target of `n` tokens -/
def InBounds (n : Int) (r : MR) : Prop := 0 ≤ r.ts ∧ r.ts < r.te ∧ r.te ≤ n

/-- ordered by target position -/
def SortedTS (l : List MR) : Prop := l.Pairwise (fun a b => a.ts ≤ b.ts)

end LC.V1Search
