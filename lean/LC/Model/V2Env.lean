/-
The concrete environment of the v2 tokenizer model: Unicode classes and
ToLower from the regenerated tables of the Go toolchain in use, the regenerated
data tables of tokenizer.go, hand-written matchers for the three
`ignorableTexts` regular expressions (there is no regex engine for Lean here;
the matchers are valid for exactly the regex sources in `expectedIgnorable`,
and the regenerated sources are compared with that list), and a parameter for
html.UnescapeString.
Core Lean only.
-/
import LC.Model.V2Tok
import LC.Gen.Unicode
import LC.Gen.V2Tables

namespace LC.V2Env
open LC.Utf8 LC.V2Tok

/-- binary search in a sorted array of disjoint inclusive ranges -/
def inRanges (a : Array (Nat × Nat)) (r : Nat) : Bool :=
  let rec go (lo hi : Nat) (fuel : Nat) : Bool :=
    match fuel with
    | 0 => false
    | fuel + 1 =>
      if lo < hi then
        let mid := (lo + hi) / 2
        let p := a[mid]!
        if r < p.1 then go lo mid fuel
        else if r > p.2 then go (mid + 1) hi fuel
        else true
      else false
  go 0 a.size 64

def isLetter (r : Rune) : Bool := inRanges LC.Gen.Unicode.letterRanges r
def isDigit (r : Rune) : Bool := inRanges LC.Gen.Unicode.digitRanges r
def isSpace (r : Rune) : Bool := inRanges LC.Gen.Unicode.spaceRanges r
def isPunct (r : Rune) : Bool := inRanges LC.Gen.Unicode.punctRanges r

def toLower (r : Rune) : Rune :=
  let a := LC.Gen.Unicode.lowerRanges
  let rec go (lo hi : Nat) (fuel : Nat) : Rune :=
    match fuel with
    | 0 => r
    | fuel + 1 =>
      if lo < hi then
        let mid := (lo + hi) / 2
        let p := a[mid]!
        if r < p.1 then go lo mid fuel
        else if r > p.2.1 then go (mid + 1) hi fuel
        else p.2.2 + (r - p.1)
      else r
  go 0 a.size 64

def punct (r : Rune) : Option (List Rune) :=
  (LC.Gen.V2.punctuationMappings.find? (·.1 = r)).map (·.2)

def listMarker (w : Word) : Bool := LC.Gen.V2.listMarkers.contains w

def interchangeable (w : Word) : Option Word :=
  (LC.Gen.V2.interchangeableWords.find? (·.1 = w)).map (·.2)

/-! ### the three ignorableTexts regular expressions -/

/-- the regex sources the matchers below implement -/
def expectedIgnorable : List String := [
  "(?i)^(.{1,5})?copyright (\\(c\\) )?(\\[yyyy\\]|\\d{4})[,.]?.*$",
  "(?i)^(.{1,5})?copyright \\(c\\) \\[dates of first publication\\].*$",
  "(?i)^\\d{4}-(\\d{2}|[a-z]{3})-\\d{2}$"]

/-- does rune `c` match the literal (lower-case ASCII) pattern rune `p` under `(?i)`?
Go's simple case folding: besides the ASCII upper-case form, `k` also matches U+212A (Kelvin)
and `s` also matches U+017F (long s). -/
def ciEq (c p : Rune) : Bool :=
  c = p || (97 ≤ p && p ≤ 122 && c + 32 = p) || (p = 107 && c = 0x212A) || (p = 115 && c = 0x17F)

/-- case-insensitive literal prefix; returns the remainder -/
def ciPrefix : List Rune → List Rune → Option (List Rune)
  | [], s => some s
  | _ :: _, [] => none
  | p :: ps, c :: cs => if ciEq c p then ciPrefix ps cs else none

def asciiDigit (c : Rune) : Bool := 48 ≤ c && c ≤ 57
/-- `[a-z]` under (?i) -/
def ciAlpha (c : Rune) : Bool := (97 ≤ c && c ≤ 122) || (65 ≤ c && c ≤ 90) || c = 0x212A || c = 0x17F

def digits (n : Nat) : List Rune → Option (List Rune)
  | s => match n with
    | 0 => some s
    | n + 1 => match s with
      | c :: cs => if asciiDigit c then digits n cs else none
      | [] => none

def noNewline (s : List Rune) : Bool := s.all (· ≠ 10)

def lit (s : String) : List Rune := s.toList.map Char.toNat

/-- body of regex 1 after the optional `.{1,5}` prefix: `copyright (\(c\) )?(\[yyyy\]|\d{4})[,.]?.*$` -/
def re1Body (s : List Rune) : Bool :=
  match ciPrefix (lit "copyright ") s with
  | none => false
  | some r =>
    let year (t : List Rune) : Bool :=
      (match ciPrefix (lit "[yyyy]") t with | some u => noNewline u | none => false) ||
      (match digits 4 t with | some u => noNewline u | none => false)
    year r || (match ciPrefix (lit "(c) ") r with | some t => year t | none => false)

def re2Body (s : List Rune) : Bool :=
  match ciPrefix (lit "copyright (c) [dates of first publication]") s with
  | some u => noNewline u
  | none => false

/-- `^(.{1,5})?BODY`: the body matches after skipping 0..5 runes, none of them a newline -/
def withPrefix (body : List Rune → Bool) (s : List Rune) : Bool :=
  (List.range 6).any (fun k => k ≤ s.length && noNewline (s.take k) && body (s.drop k))

def re3 (s : List Rune) : Bool :=
  match digits 4 s with
  | some (45 :: r) =>
    let tail (t : List Rune) : Bool :=
      match t with
      | 45 :: u => (match digits 2 u with | some [] => true | _ => false)
      | _ => false
    (match digits 2 r with | some t => tail t | none => false) ||
    (match r with
     | a :: b :: c :: t => ciAlpha a && ciAlpha b && ciAlpha c && tail t
     | _ => false)
  | _ => false

def ignorable (s : List Rune) : Bool := withPrefix re1Body s || withPrefix re2Body s || re3 s

/-- the environment, given a model of html.UnescapeString -/
def goEnv (unescape : Word → Word) : Env where
  isLetter := isLetter
  isDigit := isDigit
  isSpace := isSpace
  toLower := toLower
  punct := punct
  unescape := unescape
  ignorable := ignorable
  listMarker := listMarker
  interchangeable := interchangeable

end LC.V2Env
