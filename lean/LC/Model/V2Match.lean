/-
Model of the v2 matching pipeline after tokenisation:
  S2 dictionary ids, S3 frequencies/tokenSimilarity (frequencies.go),
  S4 search sets: generateHashes, targetMatchedRanges, detectRuns, fuseRanges,
     findPotentialMatches (searchset.go),
  S5 score / scoreDiffs vetoes (scoring.go, diff.go; word-level part in LC/Model/Score),
  S6 candidate assembly, Matches.Less, sort, retain loop (classifier.go match).

Parameters (externals, see DESIGN §4/§5): `NumEnv` carries every float64
expression of the code; `crc` is CRC-32; the diff library is an oracle
`diffOf doc start end` returning the script it produced for that call.
Go maps are iterated in the order given by the caller of the model (lists);
that the result does not depend on that order is a theorem (C04), not an
assumption of the model.  Core Lean only.
-/
import LC.Model.Score

namespace LC.V2Match
open LC.Score

/-- float64-dependent decisions; `C` is the type of confidence values. -/
structure NumEnv (C : Type) where
  /-- `computeQ(threshold)` -/
  q : Nat
  /-- `float64(hits)/float64(distinct) >= threshold` (NaN when distinct = 0 → false) -/
  simGE : Nat → Nat → Bool
  /-- `int(threshold * float64(n))` -/
  scaleFloor : Nat → Nat
  /-- `int(math.Round(float64(n) * (1.0 - threshold)))` -/
  errMargin : Nat → Nat
  /-- `confidencePercentage(klen, distance)` -/
  conf : Nat → Nat → C
  /-- the literal 0.0 returned for vetoed diffs, and 1.0 of Copyright pseudo-matches -/
  confZero : C
  confOne : C
  /-- `conf >= threshold` -/
  geThr : C → Bool
  /-- `a > b` on confidences -/
  gt : C → C → Bool
  /-- `float64(toksA)*a > float64(toksB)*b` -/
  wgt : Int → C → Int → C → Bool

structure IdTok where
  id : Nat
  line : Nat
deriving Repr, BEq, DecidableEq

/-- a corpus document: its key and its token ids (all ≠ 0) -/
structure KDoc where
  cat : String
  name : String
  variant : String
  ids : List Nat
deriving Repr, BEq

structure MR where
  srcStart : Int
  srcEnd : Int
  tgtStart : Int
  tgtEnd : Int
  claimed : Int
deriving Repr, BEq, DecidableEq

/-! ### S3 frequencies -/

def countOf (ids : List Nat) (t : Nat) : Nat := ids.count t

/-- distinct ids in order of first occurrence (the key set of `f.counts`) -/
def distinct (ids : List Nat) : List Nat := ids.eraseDups

/-- `tokenSimilarity`: (hits, number of distinct source tokens), given the two frequency
tables as functions (`cntT t = countOf target t`, `cntK t = countOf known t`) and the key set
`ks = distinct known` of the known document's table. -/
def tokenSimWith (cntT cntK : Nat → Nat) (ks : List Nat) : Nat × Nat :=
  ((ks.filter (fun t => cntT t ≥ cntK t)).length, ks.length)

def tokenSim (target known : List Nat) : Nat × Nat :=
  tokenSimWith (countOf target) (countOf known) (distinct known)

/-! ### S4 search sets -/

/-- effective q of a document's search set (`newSearchSet` clamp) -/
def effQ (q len : Nat) : Nat := if len < q then len else q

/-- checksums of all q-grams, by offset (`generateHashes`) -/
def hashes (crc : List UInt8 → Nat) (wordOf : Nat → List UInt8) (q : Nat) (ids : List Nat) : List Nat :=
  if q = 0 then []
  else (List.range (ids.length + 1 - q)).map (fun off =>
    crc (((ids.drop off).take q).flatMap (fun i => wordOf i ++ [32])))

/-- insert or update in an association list keyed by offset (Go map semantics) -/
def omUpdate (om : List (Int × List MR)) (k : Int) (f : Option (List MR) → List MR) : List (Int × List MR) :=
  match om with
  | [] => [(k, f none)]
  | (k', v) :: rest => if k' = k then (k', f (some v)) :: rest else (k', v) :: omUpdate rest k f

/-- `targetMatchedRanges` before flattening: src hashes `sh` (checksum by src offset, q-gram length qs),
target hashes `th` (length qt). -/
def joinRangesWith (lookup : Nat → List Nat) (qs : Nat) (th : List Nat) (qt : Nat) : List (Int × List MR) :=
  let step (om : List (Int × List MR)) (tv : Nat × Nat) : List (Int × List MR) :=
    -- tv = (target offset, checksum); src ranges with that checksum in insertion (offset) order
    let srcs := lookup tv.2
    srcs.foldl (fun om (svStartN : Nat) =>
      let svStart : Int := (svStartN : Int)
      let offset : Int := (tv.1 : Int) - (svStart : Int)
      let tvEnd : Int := tv.1 + qt
      let svEnd : Int := svStart + qs
      omUpdate om offset (fun cur =>
        match cur with
        | some l =>
          match l.getLast? with
          | some last =>
            if last.tgtEnd = tvEnd - 1 then l.dropLast ++ [{ last with srcEnd := svEnd, tgtEnd := tvEnd }]
            else l ++ [{ srcStart := svStart, srcEnd := svEnd, tgtStart := tv.1, tgtEnd := tvEnd, claimed := 0 }]
          | none => [{ srcStart := svStart, srcEnd := svEnd, tgtStart := tv.1, tgtEnd := tvEnd, claimed := 0 }]
        | none => [{ srcStart := svStart, srcEnd := svEnd, tgtStart := tv.1, tgtEnd := tvEnd, claimed := 0 }])) om
  (th.zipIdx.map (fun p => (p.2, p.1))).foldl step []

/-- `src.Hashes[checksum]`: the source offsets with that checksum, ascending -/
def lookupIn (sh : List Nat) (cs : Nat) : List Nat := (sh.zipIdx.filter (fun p => p.1 = cs)).map (·.2)

def joinRanges (sh : List Nat) (qs : Nat) (th : List Nat) (qt : Nat) : List (Int × List MR) :=
  joinRangesWith (lookupIn sh) qs th qt

/-- `matchRanges.Less` -/
def mrLess (a b : MR) : Bool :=
  if a.claimed ≠ b.claimed then a.claimed > b.claimed
  else if a.tgtStart ≠ b.tgtStart then a.tgtStart < b.tgtStart
  else a.srcStart < b.srcStart

/-- insertion into a list sorted by `less` (stable) -/
def insertSorted {α : Type} (less : α → α → Bool) (x : α) : List α → List α
  | [] => [x]
  | y :: ys => if less x y then x :: y :: ys else y :: insertSorted less x ys

def sortBy {α : Type} (less : α → α → Bool) (l : List α) : List α :=
  l.foldr (insertSorted less) []

/-- `targetMatchedRanges`: flatten (in the given map order), set TokensClaimed, sort -/
def targetMatchedRangesWith (lookup : Nat → List Nat) (qs : Nat) (th : List Nat) (qt : Nat) : List MR :=
  let om := joinRangesWith lookup qs th qt
  let flat := om.flatMap (fun p => p.2.map (fun m => { m with claimed := m.tgtEnd - m.tgtStart }))
  sortBy mrLess flat

def targetMatchedRanges (sh : List Nat) (qs : Nat) (th : List Nat) (qt : Nat) : List MR :=
  targetMatchedRangesWith (lookupIn sh) qs th qt

/-- `for i := a; i < b; i++ { if i < len { l[i] = true } }` -/
def setTrue (l : Array Bool) (a b : Int) : Array Bool :=
  (List.range (b - a).toNat).foldl (fun l (k : Nat) =>
    let i : Int := a + (k : Int)
    if 0 ≤ i then l.setIfInBounds i.toNat true else l) l

/-- `detectRuns`; result: (start, end) pairs over target offsets (the Go code stores them in
SrcStart/SrcEnd of a matchRange). -/
def detectRuns {C : Type} (N : NumEnv C) (matched : List MR) (targetLength subsetLength q : Nat) : List (Nat × Nat) :=
  let hits := matched.foldl (fun h m => setTrue h m.tgtStart m.tgtEnd) (Array.replicate targetLength false)
  if targetLength = 0 then []
  else
    let target := N.scaleFloor subsetLength
    let sub := if targetLength < subsetLength then targetLength else subsetLength
    let hit (i : Nat) : Bool := hits.getD i false
    let total0 := ((List.range sub).filter hit).length
    let out0 : List Nat := if total0 ≥ target then [0] else []
    -- sliding window
    let r := (List.range (targetLength - 1)).foldl (fun (st : Int × List Nat) k =>
      let i := k + 1
      let t1 : Int := if hit (i - 1) then st.1 - 1 else st.1
      let e := i + sub - 1
      let t2 : Int := if e < targetLength ∧ hit e then t1 + 1 else t1
      (t2, if t2 ≥ (target : Int) then st.2 ++ [i] else st.2)) ((total0 : Int), out0)
    let out := r.2
    match out with
    | [] => []
    | o0 :: rest =>
      let fin := rest.foldl (fun (acc : List (Nat × Nat) × Nat) o =>
        -- acc.2 = previous out value
        if o ≠ 1 + acc.2 then (acc.1 ++ [(o, o + q)], o)
        else (acc.1.dropLast ++ [((acc.1.getLast?.getD (0, 0)).1, o + q)], o)) ([(o0, o0 + q)], o0)
      fin.1

/-- a claim: the (mutated) range and the index in `matched` it came from -/
structure Claim where
  m : MR
  origin : Nat
deriving Repr, BEq

/-- try to let `m` contribute to one of the claims (in order); returns the updated claims and
whether `m` was absorbed -/
def absorb (errorMargin : Int) (m : MR) : List Claim → List Claim × Bool
  | [] => ([], false)
  | c :: cs =>
    let moff := m.tgtStart - m.srcStart
    let coff := c.m.tgtStart - c.m.srcStart
    let sampleError : Int := (moff - coff).natAbs
    let withinError := sampleError < errorMargin
    if withinError ∧ m.claimed > sampleError then
      if m.tgtStart ≥ c.m.tgtStart ∧ m.tgtEnd ≤ c.m.tgtEnd then
        ({ c with m := { c.m with claimed := c.m.claimed + m.claimed } } :: cs, true)
      else if m.tgtStart < c.m.tgtStart ∧ m.srcStart < c.m.srcStart then
        ({ c with m := { c.m with tgtStart := m.tgtStart, srcStart := m.srcStart,
                                  claimed := c.m.claimed + m.claimed } } :: cs, true)
      else if m.tgtEnd > c.m.tgtEnd ∧ m.srcEnd > c.m.srcEnd then
        ({ c with m := { c.m with tgtEnd := m.tgtEnd, srcEnd := m.srcEnd,
                                  claimed := c.m.claimed + m.claimed } } :: cs, true)
      else
        let r := absorb errorMargin m cs
        (c :: r.1, r.2)
    else
      let r := absorb errorMargin m cs
      (c :: r.1, r.2)

/-- current `matched[0].TokensClaimed`: matched[0] may have been mutated through its claim -/
def firstClaimed (claims : List Claim) (m0 : Option MR) : Int :=
  match claims.find? (fun c => c.origin == 0) with
  | some c => c.m.claimed
  | none => match m0 with
    | some x => x.claimed
    | none => 0

/-- `fuseRanges`. `none` models a Go index-out-of-range panic on `filter[off]`. -/
def fuseRanges {C : Type} (N : NumEnv C) (matched : List MR) (size : Nat) (runs : List (Nat × Nat))
    (targetSize : Nat) : Option (List MR) :=
  let errorMargin : Int := N.errMargin size
  let filter := runs.foldl (fun f r => setTrue f r.1 (min r.2 targetSize)) (Array.replicate targetSize false)
  let m0 := matched.head?
  let step (st : Option (List Claim)) (mi : MR × Nat) : Option (List Claim) :=
    match st with
    | none => none
    | some claimed =>
      let m := mi.1
      let off0 := m.tgtStart - m.srcStart
      let offOk : Option Int :=
        if off0 < 0 then (if -off0 ≤ errorMargin then some 0 else none) else some off0
      match offOk with
      | none => some claimed
      | some off =>
        if off ≥ targetSize then none  -- filter[off] out of range
        else if !(filter.getD off.toNat false) then some claimed
        else
          let r := absorb errorMargin m claimed
          if r.2 then some r.1
          else
            -- matched[0] may itself have been mutated through its claim
            let first : Int := firstClaimed r.1 m0
            if m.claimed * 10 > first then some (r.1 ++ [{ m := m, origin := mi.2 }]) else some r.1
  (matched.zipIdx.foldl step (some [])).map (fun cl => sortBy mrLess (cl.map (·.m)))

/-- `getMatchedRanges` + `findPotentialMatches` for one document. -/
def findPotentialMatches {C : Type} (N : NumEnv C) (lookup : Nat → List Nat) (qs : Nat) (srcLen : Nat)
    (th : List Nat) (qt : Nat) (tgtLen : Nat) : Option (List MR) :=
  let matched := targetMatchedRangesWith lookup qs th qt
  if matched = [] then some []
  else
    let runs := detectRuns N matched tgtLen srcLen qs
    if runs = [] then some []
    else
      match fuseRanges N matched srcLen runs tgtLen with
      | none => none
      | some fr =>
        let threshold : Int := N.scaleFloor srcLen
        some (fr.takeWhile (fun m => !(m.claimed < threshold)))

/-! ### S5 scoreDiffs vetoes (text level) -/

abbrev Text := List UInt8

def isSuffixB (s t : Text) : Bool := s.length ≤ t.length && t.drop (t.length - s.length) == s
def isPrefixB (s t : Text) : Bool := t.take s.length == s
def containsB : Text → Text → Bool
  | t, s => if isPrefixB s t then true else match t with
    | [] => false
    | _ :: rest => containsB rest s

def str (s : String) : Text := s.toUTF8.toList

structure TDiff where
  op : DOp
  text : Text   -- words joined by one space
deriving Repr, BEq

/-- `isVersionNumber` on the first word of the text (digits per `isDigit`, or '.') -/
def isVersionNumber (isDigitRune : Nat → Bool) (decode : Text → List Nat) (num : Text) : Bool :=
  (decode num).all (fun r => isDigitRune r || r = 46)

def firstWord (t : Text) : Text := t.takeWhile (· ≠ 32)

inductive Veto where
  | version | phrase | lesser
deriving Repr, BEq, DecidableEq

/-- the veto pass of `scoreDiffs`; `induced` is the regenerated inducedPhrases table
(license-name prefix ↦ phrases), `name` is LicenseName(id). -/
def vetoScan (isDigitRune : Nat → Bool) (decode : Text → List Nat)
    (induced : List (Text × List Text)) (name : Text) :
    List TDiff → (prevText prevDelete : Text) → Option Veto
  | [], _, _ => none
  | d :: rest, prevText, prevDelete =>
    match d.op with
    | .ins =>
      let num := firstWord d.text
      if isVersionNumber isDigitRune decode num ∧ isSuffixB (str "version") prevText ∧
          !(isSuffixB (str "the standard version") prevText) ∧
          !(isSuffixB (str "the contributor version") prevText) then some .version
      else
        let next : Option Text := rest.head?.map (·.text)
        let hit := induced.any (fun kp =>
          isPrefixB kp.1 name && kp.2.any (fun p =>
            containsB d.text p && !(match next with | some nt => containsB nt p | none => false)))
        if hit then some .phrase
        else if d.text == str "lesser" ∧ isSuffixB (str "gnu") prevText ∧ prevDelete != str "library" ∧
            !(containsB prevText (str "warranty")) ∧ !(containsB prevText (str "is covered by the gnu")) then
          some .lesser
        else vetoScan isDigitRune decode induced name rest prevText prevDelete
    | .eq => vetoScan isDigitRune decode induced name rest d.text []
    | .del =>
      if (d.text == str "lesser" ∨ d.text == str "library") ∧ isSuffixB (str "gnu") prevText ∧
          !(containsB prevText (str "warranty")) ∧ !(containsB prevText (str "is covered by the gnu")) then
        some .lesser
      else vetoScan isDigitRune decode induced name rest prevText d.text

/-! ### S6 match -/

structure Match (C : Type) where
  name : String
  conf : C
  matchType : String
  variant : String
  startLine : Nat
  endLine : Nat
  startTok : Int
  endTok : Int

/-- `Matches.Less` -/
def matchLess {C : Type} (N : NumEnv C) (a b : Match C) : Bool :=
  if N.gt a.conf b.conf ∨ N.gt b.conf a.conf then N.gt a.conf b.conf
  else if a.startTok ≠ b.startTok then a.startTok < b.startTok
  else if a.endTok ≠ b.endTok then a.endTok > b.endTok
  else if a.startLine ≠ b.startLine then a.startLine < b.startLine
  else if a.endLine ≠ b.endLine then a.endLine < b.endLine
  else if a.matchType ≠ b.matchType then a.matchType < b.matchType
  else if a.name ≠ b.name then a.name < b.name
  else a.variant < b.variant

def contains {C : Type} (a b : Match C) : Bool := a.startLine ≤ b.startLine && a.endLine ≥ b.endLine
def between (a b c : Nat) : Bool := b ≤ a && a ≤ c
def overlaps {C : Type} (a b : Match C) : Bool :=
  between a.startLine b.startLine b.endLine || between a.endLine b.startLine b.endLine

/-- inner loop of the retain pass for candidate `c` (index i) against earlier candidates;
returns (keep, proposals) -/
def retainInner {C : Type} (N : NumEnv C) (c : Match C) :
    List (Match C × Bool × Nat) → (proposals : List Nat) → Bool × List Nat
  | [], props => (true, props)
  | (o, retained, j) :: rest, props =>
    if contains c o ∧ retained then
      let ctoks := c.endTok - c.startTok
      let otoks := o.endTok - o.startTok
      if N.wgt ctoks c.conf otoks o.conf then retainInner N c rest (props ++ [j])
      else if N.wgt otoks o.conf ctoks c.conf then (false, props)
      else retainInner N c rest props
    else if overlaps c o ∧ retained then
      if c.startLine ≠ o.endLine then (false, props) else retainInner N c rest props
    else retainInner N c rest props

/-- the retain pass over the sorted candidates -/
def retainPass {C : Type} (N : NumEnv C) (cands : List (Match C)) : List Bool :=
  let n := cands.length
  (cands.zipIdx.foldl (fun (retain : List Bool) (ci : Match C × Nat) =>
    let earlier := ((cands.take ci.2).zip (retain.take ci.2)).zipIdx.map (fun p => (p.1.1, p.1.2, p.2))
    let r := retainInner N ci.1 earlier []
    if r.1 then
      (retain.zipIdx.map (fun p => if p.2 = ci.2 then true else if r.2.contains p.2 then false else p.1))
    else retain) (List.replicate n false))

structure Results (C : Type) where
  ms : List (Match C)
  totalInputLines : Nat

inductive Outcome (C : Type) where
  | ok (r : Results C)
  | panic (what : String)
  /-- the model asked the diff oracle for a call the implementation did not make -/
  | missingDiff (what : String)

/-- a corpus document prepared for matching (what `addDocument` precomputes) -/
structure PDoc where
  doc : KDoc
  qs : Nat                    -- effective q of its search set
  lookup : Nat → List Nat     -- Hashes[checksum] → source offsets
  ks : List Nat               -- distinct ids (key set of the frequency table)
  cnt : Nat → Nat             -- frequency table

/-- specification-level preparation (list based) -/
def prepare (crc : Text → Nat) (wordOf : Nat → Text) (q : Nat) (d : KDoc) : PDoc :=
  let qs := effQ q d.ids.length
  { doc := d, qs := qs, lookup := lookupIn (hashes crc wordOf qs d.ids), ks := distinct d.ids,
    cnt := countOf d.ids }

def joinWords (wordOf : Nat → Text) : List Nat → Text
  | [] => []
  | [w] => wordOf w
  | w :: ws => wordOf w ++ 32 :: joinWords wordOf ws

/-- `score`: (confidence, startOffset, endOffset) from the diff script of this call -/
def score {C : Type} (N : NumEnv C) (wordOf : Nat → Text) (isDigitRune : Nat → Bool)
    (decode : Text → List Nat) (induced : List (Text × List Text))
    (d : KDoc) (ds : List (Diff Nat)) : C × Nat × Nat :=
  let se := diffRange d.ids ds
  let mid := (ds.take se.2).drop se.1
  let tds := mid.map (fun x => ({ op := x.op, text := joinWords wordOf x.words } : TDiff))
  match vetoScan isDigitRune decode induced (str d.name) tds [] [] with
  | some _ => (N.confZero, 0, 0)
  | none => (N.conf d.ids.length (levWord mid), textLength (ds.take se.1), textLength (ds.drop se.2))

/-- candidates contributed by one first-pass document, or a panic / missing oracle entry -/
def docCandidates {C : Type} (N : NumEnv C) (wordOf : Nat → Text) (isDigitRune : Nat → Bool)
    (decode : Text → List Nat) (induced : List (Text × List Text))
    (diffOf : KDoc → Nat → Nat → Option (List (Diff Nat)))
    (target : Array IdTok) (th : List Nat) (qt : Nat) (p : PDoc) :
    Except (Outcome C) (List (Match C)) :=
  match findPotentialMatches N p.lookup p.qs p.doc.ids.length th qt target.size with
  | none => .error (.panic "fuseRanges: filter index out of range")
  | some ms =>
    ms.foldlM (fun (acc : List (Match C)) m =>
      let startIndex := m.tgtStart
      let endIndex := m.tgtEnd
      match diffOf p.doc startIndex.toNat endIndex.toNat with
      | none => .error (.missingDiff s!"{p.doc.cat}/{p.doc.name}/{p.doc.variant} [{startIndex},{endIndex})")
      | some ds =>
        let sc := score N wordOf isDigitRune decode induced p.doc ds
        let so : Int := sc.2.1
        let eo : Int := sc.2.2
        if N.geThr sc.1 ∧ endIndex - startIndex - so - eo > 0 then
          let si := startIndex + so
          let ei := endIndex - eo - 1
          if h : 0 ≤ si ∧ si.toNat < target.size ∧ 0 ≤ ei ∧ ei.toNat < target.size then
            .ok (acc ++ [{ name := p.doc.name, conf := sc.1, matchType := p.doc.cat, variant := p.doc.variant,
                           startLine := (target[si.toNat]'h.2.1).line, endLine := (target[ei.toNat]'h.2.2.2).line,
                           startTok := si, endTok := ei }])
          else .error (.panic "match: token index out of range")
        else .ok acc) []

/-- `Classifier.match` after tokenisation. `docs` is the corpus in the order the Go map
happens to be iterated. -/
def matchModel {C : Type} (N : NumEnv C) (crc : Text → Nat) (wordOf : Nat → Text)
    (isDigitRune : Nat → Bool) (decode : Text → List Nat) (induced : List (Text × List Text))
    (diffOf : KDoc → Nat → Nat → Option (List (Diff Nat)))
    (cntT : Nat → Nat) (docs : List PDoc) (target : Array IdTok) (copyrights : List Nat) : Outcome C :=
  let firstPass := docs.filter (fun p =>
    let s := tokenSimWith cntT p.cnt p.ks
    N.simGE s.1 s.2)
  if firstPass = [] then .ok { ms := [], totalInputLines := 0 }
  else
    let tids := target.toList.map (·.id)
    let qt := effQ N.q tids.length
    let th := hashes crc wordOf qt tids
    let cr : List (Match C) := copyrights.map (fun l =>
      { name := "Copyright", conf := N.confOne, matchType := "Copyright", variant := "",
        startLine := l, endLine := l, startTok := 0, endTok := 0 })
    let r : Except (Outcome C) (List (Match C)) := firstPass.foldlM (fun (acc : List (Match C)) p =>
      match docCandidates N wordOf isDigitRune decode induced diffOf target th qt p with
      | Except.ok ms => Except.ok (acc ++ ms)
      | Except.error e => Except.error e) cr
    match r with
    | Except.error e => e
    | Except.ok cands =>
      let sorted := sortBy (matchLess N) cands
      let retain := retainPass N sorted
      let out := (sorted.zip retain).filterMap (fun (p : Match C × Bool) => if p.2 then some p.1 else none)
      match target.back? with
      | none => .ok { ms := out, totalInputLines := 0 }
      | some t => .ok { ms := out, totalInputLines := t.line }

end LC.V2Match

namespace LC.V2Match

/-- laws of float64 comparison the order theorems need (no NaN among confidences) -/
structure NumLaws {C : Type} (N : NumEnv C) : Prop where
  gt_irrefl : ∀ a, N.gt a a = false
  gt_trans : ∀ a b c, N.gt a b = true → N.gt b c = true → N.gt a c = true
  gt_tri : ∀ a b, N.gt a b = false → N.gt b a = false → a = b

/-- a comparator that orders any two distinct elements -/
structure StrictTotal {α : Type} (less : α → α → Bool) : Prop where
  irrefl : ∀ a, less a a = false
  trans : ∀ a b c, less a b = true → less b c = true → less a c = true
  tri : ∀ a b, less a b = false → less b a = false → a = b

/-- `dictionary`: words interned in insertion order; the id of a word is its position + 1,
0 is the unknown id. -/
structure Dict where
  words : List (List Nat) := []

def Dict.getIndex (d : Dict) (w : List Nat) : Nat :=
  match d.words.idxOf? w with
  | some i => i + 1
  | none => 0

def Dict.getWord (d : Dict) (i : Nat) : Option (List Nat) :=
  if i = 0 then none else d.words[i - 1]?

def Dict.add (d : Dict) (w : List Nat) : Dict × Nat :=
  if d.getIndex w ≠ 0 then (d, d.getIndex w) else ({ words := d.words ++ [w] }, d.words.length + 1)

def Dict.addAll (d : Dict) (ws : List (List Nat)) : Dict := ws.foldl (fun d w => (d.add w).1) d

/-- a prepared document's lookup table only names q-grams that exist in the document -/
def PDoc.WF (p : PDoc) : Prop :=
  ∀ cs, ∀ o ∈ p.lookup cs, o + p.qs ≤ p.doc.ids.length

/-- well-formedness of a reported match (C03) -/
def WFMatch {C : Type} (N : NumEnv C) (docs : List PDoc) (target : Array IdTok) (crs : List Nat)
    (m : Match C) : Prop :=
  (m.matchType = "Copyright" ∧ m.name = "Copyright" ∧ m.conf = N.confOne ∧
      m.startLine = m.endLine ∧ m.startLine ∈ crs) ∨
  (N.geThr m.conf = true ∧ 0 ≤ m.startTok ∧ m.startTok ≤ m.endTok ∧ m.endTok < (target.size : Int) ∧
      (target[m.startTok.toNat]?).map (·.line) = some m.startLine ∧
      (target[m.endTok.toNat]?).map (·.line) = some m.endLine ∧
      ∃ p ∈ docs, p.doc.cat = m.matchType ∧ p.doc.name = m.name ∧ p.doc.variant = m.variant)

end LC.V2Match

namespace LC.V2Match

def mapLines (f : Nat → Nat) (target : Array IdTok) : Array IdTok :=
  target.map (fun t => { t with line := f t.line })

def mapMatch {C : Type} (f : Nat → Nat) (m : Match C) : Match C :=
  { m with startLine := f m.startLine, endLine := f m.endLine }

end LC.V2Match

namespace LC.V2Match

/-- the bytes hashed for a q-gram of token ids -/
def gram (wordOf : Nat → Text) (g : List Nat) : Text := g.flatMap (fun i => wordOf i ++ [32])

/-- distinct q-grams have distinct checksums -/
def HashInj (crc : Text → Nat) (wordOf : Nat → Text) (q : Nat) : Prop :=
  ∀ g h : List Nat, g.length = q → h.length = q → crc (gram wordOf g) = crc (gram wordOf h) → g = h

end LC.V2Match
