/-
Models of the decision/glue logic of the v1 classifiers and the CLI:
 * stringclassifier: `findAllIndex` (literal exact search, as repaired), the token range of
   an exact occurrence in `findMatches` (as repaired), `nearestMatch`'s exact shortcut;
 * licenseclassifier.License.MultipleMatch's filter chain;
 * serializer.ArchiveLicenses / License.registerLicenses pairing of archive entries;
 * identify_license: result assembly, exit status, `readFileLines`.
Codecs (tar, gzip, gob), the normalisers, go-diff and the OS are parameters.
Core Lean only.
-/
import LC.Model.Utf8

namespace LC.V1Glue

/-! ### findAllIndex -/

/-- first index ≥ 0 at which `sub` occurs in `s` -/
def indexOf (s sub : List UInt8) : Option Nat :=
  match s with
  | [] => if sub = [] then some 0 else none
  | c :: cs => if sub.isPrefixOf (c :: cs) then some 0 else (indexOf cs sub).map (· + 1)

/-- `findAllIndex(s, sub)`: successive non-overlapping occurrences, as [start, end) pairs -/
def findAll (sub : List UInt8) : Nat → List UInt8 → Nat → List (Nat × Nat)
  | 0, _, _ => []
  | fuel + 1, s, from_ =>
    if sub = [] then []
    else match indexOf s sub with
      | none => []
      | some i => (from_ + i, from_ + i + sub.length) ::
          findAll sub fuel (s.drop (i + sub.length)) (from_ + i + sub.length)

def findAllIndex (s sub : List UInt8) : List (Nat × Nat) := findAll sub (s.length + 1) s 0

/-! ### token range of an exact occurrence (findMatches) -/

structure Tok where
  offset : Nat
  len : Nat
deriving Repr, BEq, DecidableEq

/-- the repaired loop: start = the token whose offset is a; end = the last token that starts
before b (`if tok.Offset == a {start = i}; if tok.Offset >= b {break}; end = i`) -/
def exactRange (toks : List Tok) (a b : Nat) : Nat × Nat :=
  let rec go : List Tok → Nat → Nat → Nat → Nat × Nat
    | [], _, start, stop => (start, stop)
    | t :: ts, i, start, stop =>
      let start' := if t.offset = a then i else start
      if t.offset ≥ b then (start', stop) else go ts (i + 1) start' i
  go toks 0 0 0

/-! ### the occurrence without the white space at its ends (findMatches, as repaired) -/

/-- `len(s) - len(strings.TrimLeftFunc(s, unicode.IsSpace))`: bytes of leading white space -/
def leadSpace (isSpace : Nat → Bool) : Nat → List UInt8 → Nat
  | 0, _ => 0
  | fuel + 1, s =>
    match s with
    | [] => 0
    | _ :: _ =>
      let rw := LC.Utf8.decodeRune s
      let size := max 1 rw.2
      if isSpace rw.1 then size + leadSpace isSpace fuel (s.drop size) else 0

/-- end (byte offset within `s`) of the last rune of `s` that is not white space, scanning from
`i`; `last` = the value so far. `len(strings.TrimRightFunc(s, unicode.IsSpace))`. -/
def lastNonSpaceEnd (isSpace : Nat → Bool) : Nat → List UInt8 → Nat → Nat → Nat
  | 0, _, _, last => last
  | fuel + 1, s, i, last =>
    match s with
    | [] => last
    | _ :: _ =>
      let rw := LC.Utf8.decodeRune s
      let size := max 1 rw.2
      lastNonSpaceEnd isSpace fuel (s.drop size) (i + size) (if isSpace rw.1 then last else i + size)

/-- `(lo, hi)`: the occurrence `[a, b)` of `s` without the white space at its ends; `[a, b)` itself
when it is white space only -/
def trimOcc (isSpace : Nat → Bool) (s : List UInt8) (a b : Nat) : Nat × Nat :=
  let occ := (s.drop a).take (b - a)
  let lo := a + leadSpace isSpace (occ.length + 1) occ
  let hi := a + lastNonSpaceEnd isSpace (occ.length + 1) occ 0 0
  if lo ≥ hi then (a, b) else (lo, hi)

/-- the byte range reported for an exact occurrence `[a, b)`: `tr` is what `TargetRange` gives for
the token range of the trimmed occurrence; when that is exactly the trimmed occurrence, the match
is the occurrence itself, white space at its ends included -/
def exactBytes (a b : Nat) (lohi tr : Nat × Nat) : Nat × Nat :=
  if tr = lohi then (a, b) else tr

/-! ### nearestMatch exact shortcut -/

structure KV where
  key : String
  norm : List UInt8
deriving Repr, BEq, DecidableEq

/-- the loop over `c.values` (in any map order `vals`) up to the exact shortcut; `ratioOK`
stands for `diffRatio(unknown, v) ≥ MinDiffRatio` -/
def nearestExact (ratioOK : List UInt8 → List UInt8 → Bool) (unknown : List UInt8) : List KV → Option String
  | [] => none
  | v :: vs =>
    if !ratioOK unknown v.norm then nearestExact ratioOK unknown vs
    else if unknown = v.norm then some v.key
    else nearestExact ratioOK unknown vs

/-! ### License.MultipleMatch filter chain -/

structure M where
  name : String
  conf : Nat        -- confidence in an ordered scale (float64 in Go)
  offset : Nat
  extent : Nat
deriving Repr, BEq, DecidableEq

def trimHeader (n : String) : String := if n.endsWith ".header" then (n.dropEnd 7).toString else n

/-- `within c` = WithinConfidenceThreshold; `forbiddenOK name` = the forbidden-phrase check -/
def licMultiple (within : Nat → Bool) (forbiddenOK : String → Bool) (includeHeaders : Bool) (ms : List M) : List M :=
  let step (acc : List M) (v : M) : List M :=
    if !within v.conf then acc
    else if !includeHeaders && v.name.endsWith ".header" then acc
    else
      let v' := { v with name := trimHeader v.name }
      if !forbiddenOK v'.name then acc
      else if acc.contains v' then acc else acc ++ [v']
  ms.foldl step []

/-! ### archive pairing -/

structure Entry where
  name : String
  content : List UInt8
deriving Repr, BEq, DecidableEq

/-- `ArchiveLicenses`: two entries per `.txt` file, others skipped.
`norm` = TrimExtraneousTrailingText + the normalisers, `ser` = gob(searchset.New(norm …)) -/
def buildArchive (read : String → List UInt8) (norm : List UInt8 → List UInt8) (ser : List UInt8 → List UInt8)
    (files : List String) : List Entry :=
  files.flatMap (fun f =>
    if f.endsWith ".txt" then
      let n := norm (read f)
      [{ name := f, content := n }, { name := (f.dropEnd 4).toString ++ ".hash", content := ser n }]
    else [])

/-- `registerLicenses`: read entries pairwise; `none` = error (odd number of entries) -/
def parseArchive : List Entry → Option (List (String × List UInt8 × List UInt8))
  | [] => some []
  | [_] => none
  | a :: b :: rest =>
    (parseArchive rest).map (fun r => ((if a.name.endsWith ".txt" then (a.name.dropEnd 4).toString else a.name), a.content, b.content) :: r)

/-- AddPrecomputedValue refuses a key that is already registered -/
def register (vals : List (String × List UInt8 × List UInt8)) : Option (List (String × List UInt8 × List UInt8)) :=
  vals.foldl (fun acc v => acc.bind (fun l => if l.any (·.1 = v.1) then none else some (l ++ [v]))) (some [])

/-! ### identify_license -/

structure Line where
  file : String
  matchType : String
  text : String
deriving Repr, BEq, DecidableEq

/-- `classifyLicense`'s filter: header matches only with -headers -/
def fileLines (headers : Bool) (ms : List Line) : List Line :=
  ms.filter (fun m => headers || m.matchType != "Header")

/-- exit status: 0 iff at least one result -/
def exitStatus (results : List Line) : Nat := if results.isEmpty then 1 else 0

/-- `readFileLines(file, start, end)` over the file's lines (as the scanner yields them, without
line terminators, no length limit as repaired); `none` = the "last line read" error -/
def readFileLines (lines : List String) (startLine endLine : Nat) : Option String :=
  if lines.length < endLine then none
  else some (String.join (((lines.take endLine).drop (startLine - 1)).map (· ++ "\n")))

/-- tokens in increasing non-overlapping order -/
def Ordered (toks : List Tok) : Prop := toks.Pairwise (fun a b => a.offset + a.len ≤ b.offset)

end LC.V1Glue
