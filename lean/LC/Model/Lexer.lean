/-
Model of /repo/commentparser/comment_parser.go: `Parse` → `lex` (strings,
Python doc-strings, multi-line comments with nesting, single-line comments,
look-ahead `match` with push-back) and `Comments.ChunkIterator`, over the
per-language facts of commentparser/language/language.go (regenerated into
LC/Gen/LangTable.lean).

The lexer state is the remaining input (runes; `Parse` decodes with
utf8.DecodeRuneInString, invalid bytes read as U+FFFD), the 1-based line and
the number of runes read on the current line (`lineRune`, used only for the
Python doc-string rule).  `match s` with push-back is a prefix test: delimiters
contain no newline and `Parse` appends one to the input, so a delimiter can
neither span a line break nor hit end-of-input half-way.
Core Lean only.
-/
import LC.Model.Utf8

namespace LC.Lexer
open LC.Utf8

/-- the facts of language.go for one language -/
structure LangFacts where
  name : String
  single : List Rune          -- SingleLineCommentStart ("" = none)
  multiStart : List Rune
  multiEnd : List Rune
  dq : Option Bool            -- QuoteCharacter('"'): some hasEscape
  sq : Option Bool            -- QuoteCharacter('\'')
  bq : Option Bool            -- QuoteCharacter('`')
  nested : Bool
deriving Repr, BEq, DecidableEq

/-- how the lexer treats a language: table facts plus the identity tests in lex
(`lang == HTML`, `Python`, `JavaScript || Perl`, `SQL` → also MySQL's, `ObjectiveC` → also Matlab's) -/
structure Row where
  singles : List (List Rune)                  -- in the order singleLineComment tries them
  multis : List (List Rune × List Rune)       -- in the order multiLineComment tries them
  dq : Option Bool
  sq : Option Bool
  bq : Option Bool
  nested : Bool
  html : Bool
  python : Bool
  nlEndsString : Bool
deriving Repr, BEq, DecidableEq

structure Comment where
  startLine : Nat
  endLine : Nat
  text : List Rune
deriving Repr, BEq, DecidableEq

/-- position: remaining input, line (1-based), runes read on this line -/
structure Pos where
  rest : List Rune
  line : Nat
  col : Nat
deriving Repr, BEq, DecidableEq

/-- `readRune` on a non-empty rest -/
def advance (p : Pos) : Pos :=
  match p.rest with
  | [] => { p with col := p.col + 1 }   -- readRune at EOF: RuneError, width 0, lineRune++
  | r :: rs => if r = 10 then { rest := rs, line := p.line + 1, col := 0 }
               else { rest := rs, line := p.line, col := p.col + 1 }

def advanceN : Nat → Pos → Pos
  | 0, p => p
  | n + 1, p => advanceN n (advance p)

/-- `match(s)`: on success the delimiter is consumed -/
def matchAt (s : List Rune) (p : Pos) : Option Pos :=
  if s = [] then none
  else if s.isPrefixOf p.rest then some (advanceN s.length p) else none

/-- first delimiter of the list that matches -/
def firstMatch : List (List Rune) → Pos → Option Pos
  | [], _ => none
  | s :: ss, p => match matchAt s p with
    | some p' => some p'
    | none => firstMatch ss p

def firstMulti : List (List Rune × List Rune) → Pos → Option (Pos × List Rune × List Rune)
  | [], _ => none
  | (s, e) :: ms, p => match matchAt s p with
    | some p' => some (p', s, e)
    | none => firstMulti ms p

/-- body of a string literal; `none` = end of input inside the string (lex returns, dropping
nothing already collected). Returns the position after the closing quote (or at the newline
for JavaScript/Perl) and the doc-string content. -/
def stringBody (R : Row) (quote : List Rune) (hasEscape : Bool) : Nat → Pos → List Rune → Option (Pos × List Rune)
  | 0, _, _ => none
  | fuel + 1, p, acc =>
    match p.rest with
    | [] => none
    | c :: _ =>
      if hasEscape ∧ c = 92 then
        -- eat the backslash, then read the escaped rune unconditionally
        let p1 := advance p
        let c2 := p1.rest.headD runeError
        let p2 := advance p1
        if p2.rest = [] then none else stringBody R quote hasEscape fuel p2 (acc ++ [c2])
      else match matchAt quote p with
        | some p' => some (p', acc)
        | none =>
          if R.nlEndsString ∧ c = 10 then some (p, acc)
          else
            let p1 := advance p
            if p1.rest = [] then none else stringBody R quote hasEscape fuel p1 (acc ++ [c])

/-- body of a multi-line comment after its start delimiter: the delimiters are looked for
before a rune is consumed -/
def multiBody (R : Row) (start stop : List Rune) : Nat → Pos → Nat → List Rune → Option (Pos × List Rune)
  | 0, _, _, _ => none
  | fuel + 1, p, nesting, acc =>
    match p.rest with
    | [] => none
    | c :: _ =>
      match (if R.nested then matchAt start p else none) with
      | some q => multiBody R start stop fuel q (nesting + 1) (acc ++ start)
      | none =>
        match matchAt stop p with
        | some q =>
          if nesting > 0 then multiBody R start stop fuel q (nesting - 1) (acc ++ stop)
          else some (q, acc)
        | none => multiBody R start stop fuel (advance p) nesting (acc ++ [c])

/-- body of a single-line comment: up to, not including, the newline -/
def singleBody : List Rune → List Rune × List Rune
  | [] => ([], [])
  | c :: rest => if c = 10 then ([], c :: rest) else
      let r := singleBody rest
      (c :: r.1, r.2)

/-- `lex`; `fuel` bounds the number of loop iterations (input length + 1 suffices) -/
def lexLoop (R : Row) : Nat → Pos → List Comment → List Comment
  | 0, _, acc => acc
  | fuel + 1, p, acc =>
    match p.rest with
    | [] => acc
    | c :: _ =>
      let quoteInfo : Option Bool :=
        if c = 34 then R.dq else if c = 39 then R.sq else if c = 96 then R.bq else none
      if c = 34 ∨ c = 39 ∨ c = 96 then
        if R.html then lexLoop R fuel (advance p) acc
        else match quoteInfo with
          | none => lexLoop R fuel (advance p) acc
          | some hasEscape =>
            -- opening quote; Python triple quotes
            let triple : List Rune := [c, c, c]
            let tq : Option Pos := if R.python ∧ (c = 39 ∨ c = 34) then matchAt triple p else none
            let (p1, quote, isDoc) := match tq with
              | some q => (q, triple, decide (q.col = 3))
              | none => (advance p, [c], false)
            let startLine := p1.line
            match stringBody R quote hasEscape (p1.rest.length + 1) p1 [] with
            | none => acc
            | some (p2, content) =>
              let acc' := if isDoc then acc ++ [{ startLine := startLine, endLine := p2.line, text := content }] else acc
              -- `continue`: the rune after the closing quote starts the next lexeme
              lexLoop R fuel p2 acc'
      else
        let startLine := p.line
        match firstMulti R.multis p with
        | some (p1, start, stop) =>
          match multiBody R start stop (p1.rest.length + 1) p1 0 [] with
          | none => acc
          | some (p2, text) =>
            lexLoop R fuel p2 (acc ++ [{ startLine := p1.line, endLine := p2.line, text := text }])
        | none =>
          match firstMatch R.singles p with
          | some p1 =>
            let r := singleBody p1.rest
            if r.2 = [] then acc   -- end of input inside the comment (cannot happen: input ends in '\n')
            else
              -- the newline is unread and then consumed by the loop's trailing readRune
              let p2 : Pos := { rest := r.2, line := p1.line, col := p1.col + r.1.length }
              lexLoop R fuel (advance p2) (acc ++ [{ startLine := startLine, endLine := p1.line, text := r.1 }])
          | none => lexLoop R fuel (advance p) acc

/-- `Parse(contents, lang)` on the decoded runes of `contents` -/
def parse (R : Row) (rs : List Rune) : List Comment :=
  if rs = [] then []
  else
    let rs' := if rs.getLast? = some 10 then rs else rs ++ [10]
    lexLoop R (rs'.length + 1) { rest := rs', line := 1, col := 0 } []

/-! ### ChunkIterator -/

/-- inner loop of ChunkIterator: take comments into the current chunk while adjacent -/
def takeChunk : List Comment → Comment → List Comment → List Comment × List Comment × Comment
  | [], prev, chunk => (chunk, [], prev)
  | c :: cs, prev, chunk =>
    if c.startLine > prev.startLine + 1 then (chunk, c :: cs, prev)
    else if c.startLine = prev.startLine + 2 ∧ (c.startLine ≠ c.endLine ∨ prev.startLine ≠ prev.endLine) then
      (chunk, c :: cs, prev)
    else takeChunk cs c (chunk ++ [c])

/-- `ChunkIterator`: the chunks sent on the channel, in order -/
def chunks : Nat → List Comment → Comment → List (List Comment)
  | 0, _, _ => []
  | fuel + 1, cs, prev =>
    match cs with
    | [] => []
    | _ :: _ =>
      let (chunk, rest, _) := takeChunk cs prev []
      if chunk = [] then []
      else match rest with
        | [] => [chunk]
        | r :: _ => chunk :: chunks fuel rest r

def chunkIterator (cs : List Comment) : List (List Comment) :=
  match cs with
  | [] => []
  | c :: _ => chunks (cs.length + 1) cs c

end LC.Lexer

namespace LC.Lexer

/-- the language constants the lexer tests by identity -/
structure LangConsts where
  html : Nat
  python : Nat
  javaScript : Nat
  perl : Nat
  sql : Nat
  objectiveC : Nat
  mySQL : Nat
  matlab : Nat
deriving Repr, BEq, DecidableEq

def emptyFacts : LangFacts :=
  { name := "", single := [], multiStart := [], multiEnd := [], dq := none, sq := none, bq := none, nested := false }

/-- how `lex` treats language `lang`: its own delimiters first, then (SQL) MySQL's or
(ObjectiveC) Matlab's — `singleLineComment` / `multiLineComment` of comment_parser.go. -/
def rowOf (facts : Array LangFacts) (k : LangConsts) (lang : Nat) : Row :=
  let f := facts.getD lang emptyFacts
  let extra : Option LangFacts :=
    if lang = k.sql then some (facts.getD k.mySQL emptyFacts)
    else if lang = k.objectiveC then some (facts.getD k.matlab emptyFacts) else none
  { singles := f.single :: (match extra with | some e => [e.single] | none => []),
    multis := (f.multiStart, f.multiEnd) :: (match extra with | some e => [(e.multiStart, e.multiEnd)] | none => []),
    dq := f.dq, sq := f.sq, bq := f.bq, nested := f.nested,
    html := lang = k.html, python := lang = k.python,
    nlEndsString := lang = k.javaScript ∨ lang = k.perl }

open LC.Utf8 in
/-- delimiters never contain a newline -/
def Row.WF (R : Row) : Prop :=
  (∀ s ∈ R.singles, (10 : Rune) ∉ s) ∧ (∀ m ∈ R.multis, (10 : Rune) ∉ m.1 ∧ (10 : Rune) ∉ m.2)

/-- `IsChain R l`: every two consecutive elements of `l` are related by `R`
(core Lean 4.33 has no `List.IsChain`/`List.Chain'`; same constructors as Mathlib's `List.IsChain`). -/
inductive IsChain {α : Type} (R : α → α → Prop) : List α → Prop
  | nil : IsChain R []
  | singleton (a : α) : IsChain R [a]
  | cons_cons {a b : α} {l : List α} : R a b → IsChain R (b :: l) → IsChain R (a :: b :: l)

end LC.Lexer
