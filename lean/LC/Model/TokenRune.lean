/-
v2/diff.go `tokenRune` / `runeToken`: how a token identifier travels through
go-diff as a rune. Identifiers from the UTF-16 surrogate block onwards are
shifted past it, because go-diff turns runes into strings and back and every
surrogate rune becomes U+FFFD on that way. Numbers are `Nat` (Go: `int`/`rune`,
no overflow below 2^31); the harness compares the Go functions with these
closed forms on EVERY identifier 0 … 0x10FFFF (stage `tokenrune`, exhaustive).
-/
namespace LC.TokenRune

def surrogateMin : Nat := 0xD800
def surrogateSize : Nat := 0x800
def maxRune : Nat := 0x10FFFF

def tokenRune (id : Nat) : Nat := if id ≥ surrogateMin then id + surrogateSize else id
def runeToken (r : Nat) : Nat := if r ≥ surrogateMin + surrogateSize then r - surrogateSize else r

/-- what `string(rune)` followed by `[]rune(string)` does to one rune in Go -/
def throughString (r : Nat) : Nat :=
  if (surrogateMin ≤ r ∧ r < surrogateMin + surrogateSize) ∨ r > maxRune then 0xFFFD else r

end LC.TokenRune
