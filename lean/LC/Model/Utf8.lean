/-
Model of Go's `utf8.DecodeRune` / `utf8.AppendRune` as used by
/repo/v2/tokenizer.go and the v1 tokenizer. Runes are `Nat` code points.
Core Lean only.
-/
namespace LC.Utf8

abbrev Rune := Nat
def runeError : Rune := 0xFFFD

def isCont (b : UInt8) : Bool := 0x80 ≤ b.toNat && b.toNat ≤ 0xBF

/-- `utf8.DecodeRune(p)`: (rune, width). Width 0 only on empty input. -/
def decodeRune (p : List UInt8) : Rune × Nat :=
  match p with
  | [] => (runeError, 0)
  | b0 :: rest =>
    let x := b0.toNat
    if x < 0x80 then (x, 1)
    else if x < 0xC2 then (runeError, 1)
    else if x < 0xE0 then
      match rest with
      | b1 :: _ => if isCont b1 then (((x &&& 0x1F) <<< 6) ||| (b1.toNat &&& 0x3F), 2) else (runeError, 1)
      | _ => (runeError, 1)
    else if x < 0xF0 then
      match rest with
      | b1 :: b2 :: _ =>
        let lo := if x = 0xE0 then 0xA0 else 0x80
        let hi := if x = 0xED then 0x9F else 0xBF
        if lo ≤ b1.toNat && b1.toNat ≤ hi && isCont b2 then
          (((x &&& 0x0F) <<< 12) ||| ((b1.toNat &&& 0x3F) <<< 6) ||| (b2.toNat &&& 0x3F), 3)
        else (runeError, 1)
      | _ => (runeError, 1)
    else if x < 0xF5 then
      match rest with
      | b1 :: b2 :: b3 :: _ =>
        let lo := if x = 0xF0 then 0x90 else 0x80
        let hi := if x = 0xF4 then 0x8F else 0xBF
        if lo ≤ b1.toNat && b1.toNat ≤ hi && isCont b2 && isCont b3 then
          (((x &&& 0x07) <<< 18) ||| ((b1.toNat &&& 0x3F) <<< 12) ||| ((b2.toNat &&& 0x3F) <<< 6)
            ||| (b3.toNat &&& 0x3F), 4)
        else (runeError, 1)
      | _ => (runeError, 1)
    else (runeError, 1)

/-- `utf8.AppendRune(nil, r)`; surrogates and out-of-range encode U+FFFD. -/
def encodeRune (r : Rune) : List UInt8 :=
  let b (n : Nat) : UInt8 := UInt8.ofNat n
  if r < 0x80 then [b r]
  else if r < 0x800 then [b (0xC0 ||| (r >>> 6)), b (0x80 ||| (r &&& 0x3F))]
  else if (0xD800 ≤ r && r ≤ 0xDFFF) || r > 0x10FFFF then [0xEF, 0xBF, 0xBD]
  else if r < 0x10000 then
    [b (0xE0 ||| (r >>> 12)), b (0x80 ||| ((r >>> 6) &&& 0x3F)), b (0x80 ||| (r &&& 0x3F))]
  else
    [b (0xF0 ||| (r >>> 18)), b (0x80 ||| ((r >>> 12) &&& 0x3F)), b (0x80 ||| ((r >>> 6) &&& 0x3F)),
     b (0x80 ||| (r &&& 0x3F))]

def encode (rs : List Rune) : List UInt8 := rs.flatMap encodeRune

/-- decode a whole byte string: the sequence of (rune, width) a `for … DecodeRune` loop sees -/
def decodeAllW (p : List UInt8) : List (Rune × Nat) :=
  match h : p with
  | [] => []
  | _ :: _ =>
    let rw := decodeRune p
    -- width is ≥ 1 on non-empty input (theorem `decodeRune_width_pos`); `max 1` keeps the definition total
    rw :: decodeAllW (p.drop (max 1 rw.2))
termination_by p.length
decreasing_by simp [h]; omega

def decodeAll (p : List UInt8) : List Rune := (decodeAllW p).map (·.1)

end LC.Utf8
