/-
Model of /repo/v2/tokenizer.go: `tokenizeStream` (S0 read loop with the
1024-byte buffer and 4-byte carry-over; S1a rune scan with obuf / linebuf /
line / deferredEOL / deferredLines; S1b per-line processing: stringifyLineBuf,
cleanupToken, header, normalizeToken).

External library behaviour is a parameter (`Env`): Unicode classes, ToLower,
html.UnescapeString, the three `ignorableTexts` regular expressions, and the
data tables (punctuationMappings, listMarker, interchangeableWords) which are
regenerated from the source into LC/Gen.  Words are rune lists (`List Nat`):
every string the tokenizer handles is built with `utf8.AppendRune`, so it is
valid UTF-8 and the rune list determines the bytes.
Core Lean only.
-/
import LC.Model.Utf8

namespace LC.V2Tok
open LC.Utf8

abbrev Word := List Rune

structure Env where
  isLetter : Rune → Bool
  isDigit : Rune → Bool
  isSpace : Rune → Bool
  toLower : Rune → Rune
  /-- `punctuationMappings[r]` -/
  punct : Rune → Option (List Rune)
  /-- `html.UnescapeString` on a word -/
  unescape : Word → Word
  /-- one of `ignorableTexts` matches the joined line -/
  ignorable : List Rune → Bool
  /-- `listMarker[p]` -/
  listMarker : Word → Bool
  /-- `interchangeableWords[tok]` -/
  interchangeable : Word → Option Word

def nl : Rune := 10
def hyphen : Rune := 45  -- '-'

/-- is `r` allowed to start a word: `unicode.IsLetter(r) || unicode.IsDigit(r) || r == '&' || r == '('` -/
def Env.starter (E : Env) (r : Rune) : Bool :=
  E.isLetter r || E.isDigit r || r = 38 || r = 40

/-! ### S1b: per-token and per-line processing -/

/-- `strings.ReplaceAll(in, "https://", "http://")`: non-overlapping, left to right. -/
def replaceHttps : List Rune → List Rune
  | 104 :: 116 :: 116 :: 112 :: 115 :: 58 :: 47 :: 47 :: rest =>
    104 :: 116 :: 116 :: 112 :: 58 :: 47 :: 47 :: replaceHttps rest
  | c :: rest => c :: replaceHttps rest
  | [] => []

/-- `if strings.HasPrefix(in, "Https://") { in = "Http://" + in[8:] }`: the case-preserving mode of
Normalize keeps the case of a word's first rune only -/
def fixHttpsHead : List Rune → List Rune
  | 72 :: 116 :: 116 :: 112 :: 115 :: 58 :: 47 :: 47 :: rest => 72 :: 116 :: 116 :: 112 :: 58 :: 47 :: 47 :: rest
  | w => w

/-- `normalizeToken` -/
def normalizeToken (w : List Rune) : List Rune := replaceHttps (fixHttpsHead w)

/-- `flushBuf`: string(obuf) → html.UnescapeString → normalizeToken (→ interned in the local dictionary) -/
def flushWord (E : Env) (obuf : List Rune) : Word := normalizeToken (E.unescape obuf)

/-- `header(in)` -/
def header (E : Env) (w : Word) : Bool :=
  match w.getLast? with
  | none => false
  | some e =>
    let p := w.dropLast
    if e = 46 ∨ e = 58 ∨ e = 41 then   -- '.', ':', ')'
      if E.listMarker (p.map E.toLower) ∧ e ≠ 41 then true
      else p.all (fun r => E.isDigit r || r = 46)
    else false

/-- strip all trailing '.' (`for strings.HasSuffix(res, ".")`) -/
def stripDots (w : Word) : Word := (w.reverse.dropWhile (· = 46)).reverse

/-- `cleanupToken(pos, in, normalizeWord)` -/
def cleanupToken (E : Env) (pos : Nat) (w : Word) (normalizeWord : Bool) : Word :=
  -- utf8.DecodeRuneInString("") gives RuneError, which is neither letter nor digit
  let r := w.headD runeError
  if pos = 0 ∧ header E w then []
  else if !E.isLetter r ∧ E.isDigit r then
    stripDots (w.filter (fun c => E.isDigit c || c = 46 || c = 45))
  else
    let tok := w.filter E.isLetter
    if normalizeWord then (E.interchangeable tok).getD tok else tok

/-- the line as `stringifyLineBuf` joins it for the regular expressions -/
def joinLine : List Word → List Rune
  | [] => []
  | [w] => w
  | w :: ws => w ++ 32 :: joinLine ws

structure Tok where
  word : Word
  line : Nat
deriving Repr, BEq, DecidableEq

/-- result of `stringifyLineBuf` + `appendToDoc` for one buffered line:
either a Copyright pseudo-match on that line (`none`) or its tokens. -/
def processLine (E : Env) (normalize : Bool) (line : Nat) (linebuf : List Word) : Option (List Tok) :=
  if E.ignorable (joinLine linebuf) then none
  else
    let rec go : List Word → Nat → List Tok
      | [], _ => []
      | w :: ws, i =>
        let t := cleanupToken E i w normalize
        if t = [] then go ws (i + 1) else { word := t, line := line } :: go ws (i + 1)
    some (go linebuf 0)

/-! ### S1a: the rune scan -/

structure Doc where
  toks : List Tok := []          -- in order
  copyrights : List Nat := []    -- lines of Copyright pseudo-matches, in order
deriving Repr, BEq, DecidableEq

structure State where
  obuf : List Rune := []
  linebuf : List Word := []
  line : Nat := 1
  deferredEOL : Bool := false
  /-- hyphenated line breaks inside the word in progress, settled when the word ends -/
  deferredLines : Nat := 0
  doc : Doc := {}
deriving Repr, BEq, DecidableEq

/-- `appendToDoc` (no-op on an empty line buffer) -/
def appendLine (E : Env) (normalize : Bool) (d : Doc) (line : Nat) (linebuf : List Word) : Doc :=
  if linebuf = [] then d
  else match processLine E normalize line linebuf with
    | none => { d with copyrights := d.copyrights ++ [line] }
    | some ts => { d with toks := d.toks ++ ts }

/-- the `len(obuf) == 0` branch: start a word or skip the rune -/
def startOrSkip (E : Env) (normalize : Bool) (s : State) (r : Rune) : State :=
  if E.starter r then { s with obuf := [if normalize then E.toLower r else r] } else s

/-- One iteration of the inner loop for rune `r` — including, for the
"space after a word" case, the second visit of the same rune that the Go code
performs after `idx -= n` (with `obuf` then empty). -/
def step (E : Env) (normalize : Bool) (s : State) (r : Rune) : State :=
  if r = nl then
    if s.obuf ≠ [] ∧ s.obuf.getLast? = some hyphen then
      { s with obuf := s.obuf.dropLast, deferredEOL := true }
    else
      let linebuf := if s.obuf ≠ [] then s.linebuf ++ [flushWord E s.obuf] else s.linebuf
      -- `if len(linebuf) > 0 { appendToDoc; linebuf = nil; obuf = nil }`
      let doc := appendLine E normalize s.doc s.line linebuf
      let obuf := if linebuf ≠ [] then [] else s.obuf
      let doc := if normalize then doc else { doc with toks := doc.toks ++ [{ word := [nl], line := s.line }] }
      -- `line++`; a pending hyphenated line break followed by this (empty) line is counted too
      -- (`if deferredEOL { deferredEOL = false; deferredLines++ }`), and every deferred line break
      -- of a word that ends this line is settled (`line += deferredLines; deferredLines = 0`)
      { s with obuf := obuf, linebuf := [], deferredEOL := false, deferredLines := 0,
               line := s.line + 1 + (if s.deferredEOL then 1 else 0) + s.deferredLines, doc := doc }
  else if s.obuf = [] then startOrSkip E normalize s r
  else if E.isSpace r then
    if s.deferredEOL then s
    else
      let linebuf := s.linebuf ++ [flushWord E s.obuf]
      let s1 : State :=
        if s.deferredLines > 0 then
          { s with linebuf := [], deferredLines := 0, line := s.line + s.deferredLines,
                   doc := appendLine E normalize s.doc s.line linebuf }
        else { s with linebuf := linebuf }
      -- obuf = make([]byte, 0); the rune is then re-read with an empty obuf
      startOrSkip E normalize { s1 with obuf := [] } r
  else
    let s1 := if s.deferredEOL then { s with deferredEOL := false, deferredLines := s.deferredLines + 1 } else s
    match E.punct r with
    | some rep => { s1 with obuf := s1.obuf ++ rep.map E.toLower }
    | none => { s1 with obuf := s1.obuf ++ [E.toLower r] }

/-- "Process the remaining bytes in the buffer" after the read loop -/
def finish (E : Env) (normalize : Bool) (s : State) : Doc :=
  let linebuf := if s.obuf ≠ [] then s.linebuf ++ [flushWord E s.obuf] else s.linebuf
  appendLine E normalize s.doc s.line linebuf

/-- fold-level tokenizer: scan the decoded runes -/
def scanRunes (E : Env) (normalize : Bool) (rs : List Rune) : State :=
  rs.foldl (step E normalize) {}

def tokenizeRunes (E : Env) (normalize : Bool) (rs : List Rune) : Doc :=
  finish E normalize (scanRunes E normalize rs)

/-! ### S0: the read loop -/

def bufSize : Nat := 1024
def carry : Nat := 4

/-- decode runes while `idx < tgt` (the inner `for idx = 0; idx < tgt;`); `rem` is the buffer
from position `idx` to its physical end, so a rune that starts before `tgt` may extend past it
(into carried or stale bytes), as in the Go code. Returns the runes seen and the final idx. -/
def decodeWindow (rem : List UInt8) (tgt : Nat) (idx : Nat) (fuel : Nat) : List Rune × Nat :=
  match fuel with
  | 0 => ([], idx)
  | fuel + 1 =>
    if idx < tgt then
      let rw := decodeRune rem
      let w := max 1 rw.2
      let r := decodeWindow (rem.drop w) tgt (idx + w) fuel
      (rw.1 :: r.1, r.2)
    else ([], idx)

/-- The outer `for` loop over an in-memory source `src` (io.ReadFull semantics: fill the buffer
or hit the end). `buf` is the 1024-byte buffer (stale content included), `idx` the number of
carried bytes at its front. `fuel` bounds the number of chunks. Returns the rune sequence handed
to the scanner. -/
def readLoop (src : List UInt8) (buf : List UInt8) (idx : Nat) (fuel : Nat) : List Rune :=
  match fuel with
  | 0 => []
  | fuel + 1 =>
    let room := bufSize - idx
    let got := src.take room
    let n := got.length
    -- rbuf[idx:idx+n] = got; bytes beyond stay as they were
    let buf1 := buf.take idx ++ got ++ buf.drop (idx + n)
    let eof := n < room
    let tgt := if eof then idx + n else bufSize - carry
    let r := decodeWindow buf1 tgt 0 (bufSize + 1)
    if eof then r.1
    else
      -- n = copy(rbuf, rbuf[idx:]); idx = n
      let left := buf1.drop r.2
      r.1 ++ readLoop (src.drop room) (left ++ buf1.drop left.length) left.length fuel

/-- runes the real read loop feeds to the scanner for input `bs` -/
def feed (bs : List UInt8) : List Rune :=
  readLoop bs (List.replicate bufSize 0) 0 (bs.length + 2)

/-- impl-level tokenizer over bytes -/
def tokenize (E : Env) (normalize : Bool) (bs : List UInt8) : Doc :=
  tokenizeRunes E normalize (feed bs)

/-- `TotalInputLines` source: line of the last token (Go panics on an empty token list) -/
def lastLine (d : Doc) : Option Nat := d.toks.getLast?.map (·.line)

end LC.V2Tok

namespace LC.V2Tok
open LC.Utf8

/-- What the underlying `io.Reader` finally returns after delivering all its data. -/
inductive RErr where
  | eof | unexpectedEOF | other (code : Nat)
deriving Repr, BEq, DecidableEq

/-- `isEOF` of tokenizeStream applied to what `io.ReadFull` reports when the reader ended
with `term` before the buffer was full: ReadFull turns the reader's EOF into
EOF/ErrUnexpectedEOF, any other error is passed through unchanged. The tokenizer
remembers the reader's own error, so only a genuine EOF ends the input. -/
def endsInput (term : RErr) : Bool := term = .eof

/-- The read loop against a reader that delivers `src` (in any fragmentation — by the
io.ReadFull contract the chunks seen by the loop depend on the bytes only) and then fails
with `term`. -/
def readLoopR (src : List UInt8) (term : RErr) (buf : List UInt8) (idx : Nat) (fuel : Nat) :
    Except RErr (List Rune) :=
  match fuel with
  | 0 => .ok []
  | fuel + 1 =>
    let room := bufSize - idx
    let got := src.take room
    let n := got.length
    let buf1 := buf.take idx ++ got ++ buf.drop (idx + n)
    let short := n < room
    if short ∧ !endsInput term then .error term
    else
      let tgt := if short then idx + n else bufSize - carry
      let r := decodeWindow buf1 tgt 0 (bufSize + 1)
      if short then .ok r.1
      else
        let left := buf1.drop r.2
        match readLoopR (src.drop room) term (left ++ buf1.drop left.length) left.length fuel with
        | .ok rs => .ok (r.1 ++ rs)
        | .error e => .error e

def feedR (bs : List UInt8) (term : RErr) : Except RErr (List Rune) :=
  readLoopR bs term (List.replicate bufSize 0) 0 (bs.length + 2)

/-- number of lines of a rune sequence: newline-terminated lines plus a non-empty last line -/
def numLines (rs : List Rune) : Nat :=
  rs.count nl + (match rs.getLast? with | none => 0 | some r => if r = nl then 0 else 1)

/-- `s` is a non-empty suffix of `bs` whose decoding depends on bytes that follow it -/
def StableTail (bs : List UInt8) : Prop :=
  ∀ s t : List UInt8, s ≠ [] → s <:+ bs → decodeRune (s ++ t) = decodeRune s

end LC.V2Tok

namespace LC.V2Tok
open LC.Utf8

/-- `Classifier.Normalize` after tokenisation (normalize = false, so every consumed newline left an
EOL token `[nl]`): re-emit the words line by line. -/
def renderLoop : Nat → List Tok → List Rune
  | _, [] => []
  | prev, t :: ts =>
    -- `for l := prevLine; l < t.Line; l++ { buf.WriteString(eol) }`
    List.replicate (t.line - prev) nl ++
    (if t.word ≠ [nl] then (if t.line = prev then [32] else []) ++ t.word else []) ++
    renderLoop t.line ts

def render (toks : List Tok) : List Rune :=
  match toks with
  | [] => []
  | [t] => t.word
  -- newlines up to the first token's line (it need not be on line 1), then as `renderLoop`
  | t :: ts => List.replicate (t.line - 1) nl ++ (if t.word ≠ [nl] then t.word else []) ++ renderLoop t.line ts

/-- `Normalize(in)` as runes -/
def normalizeRunes (E : Env) (bs : List UInt8) : List Rune := render (tokenize E false bs).toks

/-- the words (EOL tokens excluded) that carry line `k` -/
def wordsOnLine (toks : List Tok) (k : Nat) : List Word :=
  (toks.filter (fun t => t.line = k && t.word != [nl])).map (·.word)

/-- split a rune string into its lines -/
def splitLines (rs : List Rune) : List (List Rune) :=
  rs.foldr (fun c (acc : List (List Rune)) =>
    if c = nl then [] :: acc
    else match acc with
      | [] => [[c]]
      | h :: t => (c :: h) :: t) [[]]

/-- token lines start at 1 and advance by at most one from token to token -/
def StepOne : Nat → List Tok → Prop
  | _, [] => True
  | prev, t :: ts => (t.line = prev ∨ t.line = prev + 1) ∧ StepOne t.line ts

/-- token lines never decrease from token to token -/
def Mono : Nat → List Tok → Prop
  | _, [] => True
  | prev, t :: ts => prev ≤ t.line ∧ Mono t.line ts

/-- words of a line joined by single blanks -/
def joinBlank : List Word → List Rune
  | [] => []
  | [w] => w
  | w :: ws => w ++ 32 :: joinBlank ws

/-- no hyphenated line break is ever pending while scanning `rs` -/
def NoDefer (E : Env) (rs : List Rune) : Prop :=
  ∀ p, p <+: rs → (scanRunes E false p).deferredEOL = false ∧ (scanRunes E false p).deferredLines = 0

/-- an EOL token is the last token of its line: the token after it is on the next line -/
def EolLast : List Tok → Prop
  | a :: b :: ts => (a.word = [nl] → b.line = a.line + 1) ∧ EolLast (b :: ts)
  | _ => True

end LC.V2Tok
