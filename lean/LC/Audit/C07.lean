import LC.Props.C07
#print axioms LC.V2Tok.tokens_shift
#print axioms LC.V2Tok.clean_after_plain_nl
#print axioms LC.V2Match.hashes_shift
#print axioms LC.V2Match.match_line_monotone
