import LC.Props.C13
import LC.Props.C17
import LC.Props.C13Uniq
#print axioms LC.V1Glue.findAll_sound
#print axioms LC.V1Glue.findAll_first
#print axioms LC.V1Glue.exact_token_range
#print axioms LC.V1Glue.exact_token_range_trailing
#print axioms LC.V1Glue.exact_reports_occurrence
#print axioms LC.V1Glue.exactBytes_inside
#print axioms LC.V1Glue.nearest_exact
#print axioms LC.V1Tok.tokenize_faithful
#print axioms LC.V1Tok.encode_decode
#print axioms LC.V1Tok.uncovered_is_space
#print axioms LC.V1Tok.targetRange_ok
#print axioms LC.V1Search.untangle_fuel
#print axioms LC.V1Search.post_inv
#print axioms LC.V1Search.post_ne
#print axioms LC.V1Search.candidate_byte_range
#print axioms LC.V1Glue.uniquifyGo_sublist
#print axioms LC.V1Glue.uniquify_sublist
#print axioms LC.V1Glue.uniquifyGo_keeps
#print axioms LC.V1Glue.uniquify_keeps
#print axioms LC.V1Glue.uniquifyGo_starts_apart
#print axioms LC.V1Glue.uniquify_starts_apart
#print axioms LC.V1Glue.uniquify_adjacent
