import LC.Props.C19
#print axioms LC.V1Glue.results_schedule_independent
#print axioms LC.V1Glue.header_filter
#print axioms LC.V1Glue.exit_iff
#print axioms LC.V1Glue.readLines_spec
#print axioms LC.V1Glue.readLines_short
