import LC.Props.C19
import LC.Props.C19Locks
#print axioms LC.V1Glue.results_schedule_independent
#print axioms LC.V1Glue.header_filter
#print axioms LC.V1Glue.exit_iff
#print axioms LC.V1Glue.readLines_spec
#print axioms LC.V1Glue.readLines_short
#print axioms LC.Pool.defer_order_current
#print axioms LC.Pool.no_send_after_close
#print axioms LC.Pool.old_order_can_panic
#print axioms LC.RW.results_skeletons_present
#print axioms LC.RW.results_skeletons_accepted
#print axioms LC.RW.results_append_exclusive
