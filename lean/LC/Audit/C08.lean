import LC.Props.C08
#print axioms LC.V2Tok.decodeRune_width
#print axioms LC.V2Tok.decodeRune_local
#print axioms LC.V2Tok.feed_eq_decodeAll
#print axioms LC.V2Tok.feed_pad
#print axioms LC.V2Tok.stableTail_of_ascii_end
#print axioms LC.V2Tok.feedR_spec
