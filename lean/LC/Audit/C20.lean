import LC.Props.C20Heap
import LC.Props.C20HeapSort
import LC.Props.C20Sets
import LC.Props.C20SetsAlgebra
#print axioms LC.Heap.reachable_inv
#print axioms LC.Heap.push_spec
#print axioms LC.Heap.pop_isSome
#print axioms LC.Heap.pop_spec
#print axioms LC.Heap.remove_spec
#print axioms LC.Heap.setFix_spec
#print axioms LC.Heap.vals_length
#print axioms LC.Heap.drain_sorted
#print axioms LC.Heap.drain_sorted_reachable
#print axioms LC.Sets.new_spec
#print axioms LC.Sets.insert_spec
#print axioms LC.Sets.delete_spec
#print axioms LC.Sets.copy_spec
#print axioms LC.Sets.intersect_spec
#print axioms LC.Sets.disjoint_spec
#print axioms LC.Sets.difference_spec
#print axioms LC.Sets.unique_spec
#print axioms LC.Sets.equal_spec
#print axioms LC.Sets.equal_nil
#print axioms LC.Sets.union_spec
#print axioms LC.Sets.contains_spec
#print axioms LC.Sets.len_spec
#print axioms LC.Sets.elements_spec
#print axioms LC.Sets.order_irrelevant
#print axioms LC.Sets.empty_spec
#print axioms LC.Sets.intersect_comm
#print axioms LC.Sets.union_comm
#print axioms LC.Sets.unique_comm
#print axioms LC.Sets.intersect_union_self
#print axioms LC.Sets.difference_unique_self
#print axioms LC.Sets.split_by
#print axioms LC.Sets.unique_eq_union_minus_intersect
#print axioms LC.Sets.insert_delete
#print axioms LC.Sets.equal_equiv
#print axioms LC.Sets.len_of_parts
#print axioms LC.Sets.len_split
#print axioms LC.Sets.len_union_intersect
