import LC.Props.C01
import LC.Props.C01Range
#print axioms LC.V2Match.prefilter_contains
#print axioms LC.V2Match.hashes_contains
#print axioms LC.V2Match.score_exact
#print axioms LC.V2Match.score_exact_conf
#print axioms LC.V2Match.retain_length
#print axioms LC.V2Match.retain_single
#print axioms LC.V2Match.retain_not_dominated
#print axioms LC.V2Match.retain_unconflicted
#print axioms LC.V2Match.exact_range_proposed
