import LC.Props.C11
import LC.Props.C06
#print axioms LC.V2Tok.render_lines
#print axioms LC.V2Tok.tokenize_stepOne
#print axioms LC.V2Tok.tokenize_first_line
#print axioms LC.V2Tok.tokenize_eol_last
#print axioms LC.V2Tok.tokenize_words
#print axioms LC.V2Tok.normalize_lines
#print axioms LC.V2Tok.render_lines_mono
#print axioms LC.V2Tok.tokenize_mono
#print axioms LC.V2Tok.tokenize_eol_lastlt
#print axioms LC.V2Tok.normalize_lines_all
#print axioms LC.V2Tok.render_small
#print axioms LC.V2Tok.notice_line
#print axioms LC.V2Tok.marker_dropped
#print axioms LC.V2Tok.header_iff
#print axioms LC.V2Tok.marker_examples
#print axioms LC.V2Tok.hyphen_join_word
#print axioms LC.V2Tok.hyphen_join_word_go
#print axioms LC.V2Tok.interchangeable_same_token
#print axioms LC.V2Tok.interchangeable_same_token_go
#print axioms LC.V2Tok.spelling_table
#print axioms LC.V2Tok.https_http
#print axioms LC.V2Tok.replaceHttps_idem
#print axioms LC.V2Tok.normalizeToken_capital
#print axioms LC.V2Tok.normalizeToken_idem
#print axioms LC.V2Tok.notice_inside_span_dropped
