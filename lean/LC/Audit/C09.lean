import LC.Props.C09
import LC.Props.C09Footprint
#print axioms LC.Conc.readonly_no_race
#print axioms LC.Conc.readonly_reads_initial
#print axioms LC.Conc.protocol_at_most_one_write
#print axioms LC.Conc.protocol_no_race
#print axioms LC.Conc.protocol_reads_agree
#print axioms LC.Conc.racy_unlocked_check
#print axioms LC.Spec.FootprintExpect.footprint_current
#print axioms LC.Spec.FootprintExpect.match_does_not_update_dict
#print axioms LC.Spec.FootprintExpect.write_targets
