import LC.Props.C16
import LC.Props.C16Complete
import LC.Props.C13
#print axioms LC.V1Glue.multiple_within_threshold
#print axioms LC.V1Glue.multiple_from_input
#print axioms LC.V1Glue.multiple_nodup
#print axioms LC.V1Glue.mstep_mono
#print axioms LC.V1Glue.mfold_mono
#print axioms LC.V1Glue.mstep_keeps
#print axioms LC.V1Glue.multiple_complete
#print axioms LC.V1Glue.multiple_exact
#print axioms LC.V1Glue.findAll_sound
#print axioms LC.V1Glue.findAll_first
#print axioms LC.V1Glue.exact_token_range
#print axioms LC.V1Glue.exact_token_range_trailing
#print axioms LC.V1Glue.exact_reports_occurrence
#print axioms LC.V1Glue.exactBytes_inside
#print axioms LC.V1Glue.nearest_exact
