import LC.Props.C06
#print axioms LC.V2Tok.notice_line
#print axioms LC.V2Tok.marker_dropped
#print axioms LC.V2Tok.header_iff
#print axioms LC.V2Tok.marker_examples
#print axioms LC.V2Tok.hyphen_join_word
#print axioms LC.V2Tok.hyphen_join_word_go
#print axioms LC.V2Tok.interchangeable_same_token
#print axioms LC.V2Tok.interchangeable_same_token_go
#print axioms LC.V2Tok.spelling_table
#print axioms LC.V2Tok.https_http
#print axioms LC.V2Tok.replaceHttps_idem
#print axioms LC.V2Tok.normalizeToken_capital
#print axioms LC.V2Tok.normalizeToken_idem
#print axioms LC.V2Tok.notice_inside_span_dropped
