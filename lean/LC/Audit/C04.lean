import LC.Props.C04
import LC.Props.C09Footprint
#print axioms LC.V2Match.sortBy_perm
#print axioms LC.V2Match.sortBy_sorted
#print axioms LC.V2Match.sort_order_irrelevant
#print axioms LC.V2Match.sorted_perm_unique
#print axioms LC.V2Match.matchLess_total
#print axioms LC.V2Match.mr_sort_order_irrelevant
#print axioms LC.V2Match.match_order_independent
#print axioms LC.V2Match.match_equivariant
#print axioms LC.V2Match.dict_roundtrip
#print axioms LC.V2Match.dict_add_stable
#print axioms LC.V2Match.matchLess_fields_current
#print axioms LC.V2Match.mrLess_fields_current
#print axioms LC.Spec.FootprintExpect.footprint_current
#print axioms LC.Spec.FootprintExpect.match_does_not_update_dict
#print axioms LC.Spec.FootprintExpect.write_targets
