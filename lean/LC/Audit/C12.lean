import LC.Props.C12
#print axioms LC.LoadPath.clean_idem
#print axioms LC.LoadPath.rel_walk
#print axioms LC.LoadPath.load_key_exact
#print axioms LC.LoadPath.load_key_shallow
#print axioms LC.LoadPath.load_key_total
