import LC.Props.C02
import LC.Props.C02Words
import LC.Props.C02Bounds
import LC.Props.C02Runes
#print axioms LC.Score.lev_le_levWord
#print axioms LC.Score.score_bound
#print axioms LC.Score.lev_eq_zero_iff
#print axioms LC.Score.conf_one_only_if_identical
#print axioms LC.V2Tok.stripDots_subset
#print axioms LC.V2Tok.cleanupToken_no_blank
#print axioms LC.V2Tok.interchangeable_values_no_blank_go
#print axioms LC.V2Tok.goEnv_no_blank
#print axioms LC.Score.textLength_cons
#print axioms LC.Score.levWordAux_le
#print axioms LC.Score.levWord_le_textLength
#print axioms LC.Score.levWordAux_eq_zero_iff
#print axioms LC.Score.levWord_eq_zero_iff
#print axioms LC.Score.src_eq_dst_of_all_eq
#print axioms LC.Score.conf_one_of_all_equal
#print axioms LC.Score.conf_one_iff_identical
#print axioms LC.TokenRune.runeToken_tokenRune
#print axioms LC.TokenRune.tokenRune_not_surrogate
#print axioms LC.TokenRune.tokenRune_valid
#print axioms LC.TokenRune.tokenRune_injective
#print axioms LC.TokenRune.throughString_tokenRune
#print axioms LC.TokenRune.roundtrip_distinct
#print axioms LC.TokenRune.old_encoding_collides
