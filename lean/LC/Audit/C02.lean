import LC.Props.C02
import LC.Props.C02Words
#print axioms LC.Score.lev_le_levWord
#print axioms LC.Score.score_bound
#print axioms LC.Score.lev_eq_zero_iff
#print axioms LC.Score.conf_one_only_if_identical
#print axioms LC.V2Tok.stripDots_subset
#print axioms LC.V2Tok.cleanupToken_no_blank
#print axioms LC.V2Tok.interchangeable_values_no_blank_go
#print axioms LC.V2Tok.goEnv_no_blank
