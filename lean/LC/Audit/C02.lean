import LC.Props.C02
#print axioms LC.Score.lev_le_levWord
#print axioms LC.Score.score_bound
#print axioms LC.Score.lev_eq_zero_iff
#print axioms LC.Score.conf_one_only_if_identical
