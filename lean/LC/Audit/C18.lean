import LC.Props.C18
#print axioms LC.Lexer.lex_refines_spec
#print axioms LC.Lexer.table_current
#print axioms LC.Lexer.consts_current
#print axioms LC.Lexer.expected_rows_wf
#print axioms LC.Lexer.parse_is_spec
#print axioms LC.Lexer.spec_comment_lines
#print axioms LC.Lexer.chunks_concat
#print axioms LC.Lexer.chunks_nonempty
#print axioms LC.Lexer.chunks_adjacent
#print axioms LC.Lexer.chunks_maximal
