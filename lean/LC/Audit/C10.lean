import LC.Props.C03WF
import LC.Props.C08
#print axioms LC.V2Match.match_wellformed
#print axioms LC.V2Match.match_sorted
#print axioms LC.V2Match.match_total_lines
#print axioms LC.V2Match.match_no_panic
#print axioms LC.V2Match.prepare_wf
#print axioms LC.V2Match.matchLess_confidence_first
#print axioms LC.V2Tok.decodeRune_width
#print axioms LC.V2Tok.decodeRune_local
#print axioms LC.V2Tok.feed_eq_decodeAll
#print axioms LC.V2Tok.feed_pad
#print axioms LC.V2Tok.stableTail_of_ascii_end
#print axioms LC.V2Tok.feedR_spec
