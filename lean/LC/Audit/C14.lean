import LC.Props.C14
#print axioms LC.Conc.skeleton_current
#print axioms LC.Conc.prefix_skeleton_rejected
#print axioms LC.Conc.two_thread_instance
