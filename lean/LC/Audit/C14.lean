import LC.Props.C14
#print axioms LC.Conc.skeleton_current
#print axioms LC.Conc.prefix_skeleton_rejected
#print axioms LC.Conc.two_thread_instance
#print axioms LC.RW.values_skeletons_accepted
#print axioms LC.RW.values_skeletons_present
#print axioms LC.RW.accepted_calls_ok
#print axioms LC.RW.threadOK_append
#print axioms LC.RW.prefixOK_of_threadOK
#print axioms LC.RW.rw_no_race
