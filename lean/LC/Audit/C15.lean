import LC.Props.C15
import LC.Props.C15Parse
#print axioms LC.V1Glue.parse_build
#print axioms LC.V1Glue.register_distinct
#print axioms LC.V1Glue.register_duplicate
#print axioms LC.V1Glue.parse_none_iff_odd
#print axioms LC.V1Glue.parse_length
#print axioms LC.V1Glue.build_even
#print axioms LC.V1Glue.roundtrip_register
#print axioms LC.V1Glue.roundtrip_duplicate
