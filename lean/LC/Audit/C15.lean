import LC.Props.C15
#print axioms LC.V1Glue.parse_build
#print axioms LC.V1Glue.register_distinct
#print axioms LC.V1Glue.register_duplicate
