import LC.Props.C17
#print axioms LC.V1Tok.tokenize_faithful
#print axioms LC.V1Tok.encode_decode
#print axioms LC.V1Tok.uncovered_is_space
#print axioms LC.V1Tok.targetRange_ok
