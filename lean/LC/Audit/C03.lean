import LC.Props.C03Lines
#print axioms LC.V2Tok.token_lines_bounded
#print axioms LC.V2Tok.copyright_lines_bounded
#print axioms LC.V2Tok.token_lines_monotone
#print axioms LC.V2Tok.totalInputLines_le
