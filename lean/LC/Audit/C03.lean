import LC.Props.C03Lines
import LC.Props.C03WF
#print axioms LC.V2Tok.token_lines_bounded
#print axioms LC.V2Tok.copyright_lines_bounded
#print axioms LC.V2Tok.token_lines_monotone
#print axioms LC.V2Tok.totalInputLines_le
#print axioms LC.V2Match.match_wellformed
#print axioms LC.V2Match.match_sorted
#print axioms LC.V2Match.match_total_lines
#print axioms LC.V2Match.match_no_panic
#print axioms LC.V2Match.prepare_wf
#print axioms LC.V2Match.matchLess_confidence_first
