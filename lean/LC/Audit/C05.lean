import LC.Props.C05
import LC.Props.C05Quotes
#print axioms LC.V2Tok.step_congr
#print axioms LC.V2Tok.tokenize_congr
#print axioms LC.V2Tok.skip_inert
#print axioms LC.V2Tok.insert_inert
#print axioms LC.V2Tok.obuf_empty_after_nl
#print axioms LC.V2Tok.obuf_empty_after_space
#print axioms LC.V2Tok.crlf_equiv
#print axioms LC.V2Tok.tokenize_from_clean
#print axioms LC.V2Tok.blank_line_shift
#print axioms LC.V2Tok.ascii_case_sig
#print axioms LC.V2Tok.dash_sig
#print axioms LC.V2Tok.blank_sig
#print axioms LC.V2Tok.decoration_not_starter
#print axioms LC.V2Tok.goEnv_wf
#print axioms LC.V2Tok.quotes_invariant
#print axioms LC.V2Tok.quotes_invariant_go
