/-
Specification-level vocabulary for the tokenizer theorems (C05, C06, C07, C11):
scan signatures of runes, clean scanner states, line-shifted documents.
Core Lean only.
-/
import LC.Model.V2Tok

namespace LC.V2Tok
open LC.Utf8

/-- Everything `step` can observe about a rune: is it the newline; if it may start a word, the
form it is stored in; is it a space; otherwise the runes it appends to a word in progress. -/
structure Sig where
  isNl : Bool
  first : Option Rune          -- `some f` iff the rune is a word starter
  space : Bool
  cont : Option (List Rune)    -- what a non-space rune appends to a non-empty obuf
deriving DecidableEq, Repr

def sig (E : Env) (normalize : Bool) (r : Rune) : Sig where
  isNl := r == nl
  first := if E.starter r then some (if normalize then E.toLower r else r) else none
  space := E.isSpace r
  cont := if E.isSpace r then none else
    some (match E.punct r with | some rep => rep.map E.toLower | none => [E.toLower r])

/-- continue a scan from state `s` -/
def scanFrom (E : Env) (normalize : Bool) (s : State) (rs : List Rune) : State :=
  rs.foldl (step E normalize) s

/-- nothing pending: between lines, no word or line in progress, no deferred hyphen logic -/
def Clean (s : State) : Prop :=
  s.obuf = [] ∧ s.linebuf = [] ∧ s.deferredEOL = false ∧ s.deferredLines = 0

def shiftTok (k : Nat) (t : Tok) : Tok := { t with line := t.line + k }

/-- the document with every line number increased by `k` -/
def shiftDoc (k : Nat) (d : Doc) : Doc :=
  { toks := d.toks.map (shiftTok k), copyrights := d.copyrights.map (· + k) }

def appendDoc (a b : Doc) : Doc := { toks := a.toks ++ b.toks, copyrights := a.copyrights ++ b.copyrights }

/-- the words of a rune string as the tokenizer flushes them, ignoring line structure -/
def docWords (d : Doc) : List Word := d.toks.map (·.word)

/-- facts about rune classes that hold for the Go tables (checked on the regenerated tables
by kernel evaluation in LC/Props/C05.lean): no space starts a word, newline is a space. -/
structure EnvWF (E : Env) : Prop where
  space_not_starter : ∀ r, E.isSpace r = true → E.starter r = false
  nl_space : E.isSpace nl = true

/-- the words a line leaves in the line buffer when scanned from a clean state -/
def lineBufOf (E : Env) (t : State) : List Word :=
  t.linebuf ++ (if t.obuf ≠ [] then [flushWord E t.obuf] else [])

end LC.V2Tok
