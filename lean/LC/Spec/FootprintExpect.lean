/-
The REVIEWED footprint of `Classifier.match` (C09), hand-maintained: what the regenerated facts
(LC/Gen/V2Footprint.lean) are expected to be, with the reason each write site is not a write to
state shared between concurrent Match calls.  Frozen from the code as reviewed on 2026-09-30; a
change of the code that adds a function, a write site, a package-level variable or changes an
`updateDict`/`normalize` argument on the Match path changes the regenerated facts and this
equality stops checking (LC/Props/C09.lean `footprint_current`) until the new footprint has been
reviewed and this file updated.

Review notes, per write site reachable from match:
 * appendToDoc: indexedDocument.Tokens / .Matches — `doc` is the document tokenizeStream is
   building for THIS call (a local of tokenizeStream), never a corpus document.
 * dictionary.add: .words / .indices — reached from (a) flushBuf on `ld`, the call-local dictionary
   created by tokenizeStream (`ld := newDictionary()`); (b) stringifyLineBuf on the classifier's
   dictionary only under `updateDict`; (c) tokenizeStream on the classifier's dictionary only under
   `!normalize`.  Match calls tokenizeStream with normalize=true, updateDict=false (fact below), so
   neither (b) nor (c) runs on the Match path.
 * frequencyTable.update, indexedDocument.generateFrequencies / generateSearchSet,
   searchSet.generateNodeList: called by tokenizeStream / match on the TARGET document of this call;
   corpus documents get theirs in AddContent (not reachable from match).
What the facts cannot show: writes through pointers handed to other packages (go-diff), writes via
method calls on package-level objects, aliasing the extractor does not follow (a local variable
assigned from a call result).  Those stay with the snapshot check and the race detector.
Core Lean only.
-/
namespace LC.Spec.FootprintExpect

def reachable : List String := ["Classifier.detectRuns", "Classifier.findPotentialMatches", "Classifier.fuseRanges", "Classifier.getMatchedRanges", "Classifier.match", "Classifier.score", "LicenseName", "TraceConfiguration.isTraceLicense", "TraceConfiguration.shouldTrace", "TraceConfiguration.trace", "TraceConfiguration.traceScoring", "TraceConfiguration.traceSearchset", "TraceConfiguration.traceTokenize", "appendToDoc", "between", "cleanupToken", "confidencePercentage", "contains", "detectionType", "dictionary.add", "dictionary.getIndex", "dictionary.getWord", "diffLevenshteinWord", "diffRange", "diffRunesToWords", "diffWordsToRunes", "docDiff", "flushBuf", "frequencyTable.update", "generateHashes", "hash.add", "header", "indexedDocument.generateFrequencies", "indexedDocument.generateSearchSet", "indexedDocument.normalized", "indexedDocument.size", "indexedDocument.tokenSimilarity", "isVersionNumber", "matchRange.String", "matchRange.in", "max", "newDictionary", "newFrequencyTable", "newSearchSet", "node.String", "normalizeToken", "overlaps", "runeToken", "scoreDiffs", "searchSet.generateNodeList", "stringifyLineBuf", "targetMatchedRanges", "textLength", "tokenRange.String", "tokenRune", "tokenizeStream", "variantName", "wordLen"]

def writes : List (String × String) := [("appendToDoc", "indexedDocument.Matches"), ("appendToDoc", "indexedDocument.Tokens"), ("dictionary.add", "dictionary.indices"), ("dictionary.add", "dictionary.words"), ("frequencyTable.update", "frequencyTable.counts"), ("indexedDocument.generateFrequencies", "indexedDocument.f"), ("indexedDocument.generateSearchSet", "indexedDocument.s"), ("searchSet.generateNodeList", "searchSet.nodes")]

def globals : List (String × String) := [("cleanupToken", "interchangeableWords"), ("dictionary.add", "unknownIndex"), ("dictionary.getIndex", "unknownIndex"), ("dictionary.getWord", "unknownWord"), ("header", "listMarker"), ("stringifyLineBuf", "ignorableTexts"), ("tokenizeStream", "eol"), ("tokenizeStream", "punctuationMappings"), ("tokenizeStream", "unknownIndex")]

def updateDictArgs : List (String × String × String) := [("Classifier.match", "tokenizeStream", "normalize=true updateDict=false"), ("appendToDoc", "stringifyLineBuf", "updateDict"), ("flushBuf", "ld.add", "unguarded"), ("stringifyLineBuf", "dict.add", "txt != \"\" && updateDict"), ("tokenizeStream", "appendToDoc", "updateDict"), ("tokenizeStream", "appendToDoc", "updateDict"), ("tokenizeStream", "appendToDoc", "updateDict"), ("tokenizeStream", "dict.add", "r == '\\n' && !normalize && tokID == unknownIndex")]

end LC.Spec.FootprintExpect
