/- HAND-MAINTAINED expectation: the comment and string syntax of every supported language, frozen from the pinned commit (language.go as reviewed for this task). It is what `each language's comment and string syntax` means for C18; the regenerated table LC/Gen/LangTable must equal it. Notes: Rust has no block comment by choice of the code; AppleScript's style is never returned by commentStyle, so it has no comment syntax here; SQL additionally uses MySQL's styles and ObjectiveC Matlab's (lexer rule, see LC/Model/Lexer.rowOf). -/
import LC.Model.Lexer
namespace LC.Spec.LangExpect
open LC.Lexer

def facts : Array LangFacts := #[
  { name := "0", single := [], multiStart := [], multiEnd := [], dq := some true, sq := some true, bq := none, nested := false },
  { name := "1", single := [], multiStart := [], multiEnd := [], dq := some true, sq := some true, bq := none, nested := false },
  { name := "2", single := [47, 47], multiStart := [47, 42], multiEnd := [42, 47], dq := some true, sq := some true, bq := none, nested := false },
  { name := "3", single := [35], multiStart := [], multiEnd := [], dq := some true, sq := some true, bq := none, nested := false },
  { name := "4", single := [64, 82, 69, 77], multiStart := [], multiEnd := [], dq := some true, sq := some true, bq := none, nested := false },
  { name := "5", single := [47, 47], multiStart := [47, 42], multiEnd := [42, 47], dq := some true, sq := some true, bq := none, nested := false },
  { name := "6", single := [35], multiStart := [], multiEnd := [], dq := some true, sq := some true, bq := none, nested := false },
  { name := "7", single := [59], multiStart := [], multiEnd := [], dq := some true, sq := some true, bq := none, nested := false },
  { name := "8", single := [35], multiStart := [35, 91, 91], multiEnd := [93, 93], dq := some true, sq := some true, bq := none, nested := false },
  { name := "9", single := [47, 47], multiStart := [47, 42], multiEnd := [42, 47], dq := some true, sq := some true, bq := none, nested := false },
  { name := "10", single := [47, 47], multiStart := [47, 42], multiEnd := [42, 47], dq := some true, sq := some true, bq := none, nested := false },
  { name := "11", single := [], multiStart := [], multiEnd := [], dq := some true, sq := some true, bq := none, nested := false },
  { name := "12", single := [35], multiStart := [], multiEnd := [], dq := some true, sq := some true, bq := none, nested := false },
  { name := "13", single := [47, 47], multiStart := [47, 42], multiEnd := [42, 47], dq := some true, sq := some true, bq := none, nested := false },
  { name := "14", single := [33], multiStart := [], multiEnd := [], dq := some true, sq := some true, bq := none, nested := false },
  { name := "15", single := [47, 47], multiStart := [47, 42], multiEnd := [42, 47], dq := some true, sq := some true, bq := none, nested := false },
  { name := "16", single := [47, 47], multiStart := [47, 42], multiEnd := [42, 47], dq := some true, sq := some true, bq := some false, nested := false },
  { name := "17", single := [], multiStart := [60, 33, 45, 45], multiEnd := [45, 45, 62], dq := some true, sq := some true, bq := none, nested := false },
  { name := "18", single := [45, 45], multiStart := [123, 45], multiEnd := [45, 125], dq := some true, sq := some true, bq := none, nested := false },
  { name := "19", single := [47, 47], multiStart := [47, 42], multiEnd := [42, 47], dq := some true, sq := some true, bq := none, nested := false },
  { name := "20", single := [47, 47], multiStart := [47, 42], multiEnd := [42, 47], dq := some true, sq := some true, bq := none, nested := false },
  { name := "21", single := [47, 47], multiStart := [47, 42], multiEnd := [42, 47], dq := some true, sq := some true, bq := none, nested := false },
  { name := "22", single := [], multiStart := [], multiEnd := [], dq := some true, sq := some true, bq := none, nested := false },
  { name := "23", single := [59], multiStart := [], multiEnd := [], dq := some true, sq := some true, bq := none, nested := false },
  { name := "24", single := [], multiStart := [60, 33, 45, 45], multiEnd := [45, 45, 62], dq := some true, sq := some true, bq := none, nested := false },
  { name := "25", single := [37], multiStart := [37, 123], multiEnd := [37, 125], dq := some true, sq := some true, bq := none, nested := false },
  { name := "26", single := [35], multiStart := [47, 42], multiEnd := [42, 47], dq := some true, sq := some true, bq := none, nested := false },
  { name := "27", single := [35], multiStart := [], multiEnd := [], dq := some true, sq := some true, bq := none, nested := false },
  { name := "28", single := [47, 47], multiStart := [47, 42], multiEnd := [42, 47], dq := some true, sq := some true, bq := none, nested := false },
  { name := "29", single := [35], multiStart := [], multiEnd := [], dq := some true, sq := some true, bq := none, nested := false },
  { name := "30", single := [35], multiStart := [], multiEnd := [], dq := some true, sq := some true, bq := none, nested := false },
  { name := "31", single := [35], multiStart := [], multiEnd := [], dq := some true, sq := some true, bq := none, nested := false },
  { name := "32", single := [35], multiStart := [61, 98, 101, 103, 105, 110], multiEnd := [61, 101, 110, 100], dq := some true, sq := some true, bq := none, nested := false },
  { name := "33", single := [47, 47], multiStart := [], multiEnd := [], dq := some true, sq := some true, bq := none, nested := false },
  { name := "34", single := [], multiStart := [], multiEnd := [], dq := some true, sq := some true, bq := none, nested := false },
  { name := "35", single := [47, 47], multiStart := [47, 42], multiEnd := [42, 47], dq := some true, sq := some true, bq := none, nested := false },
  { name := "36", single := [47, 47], multiStart := [47, 42], multiEnd := [42, 47], dq := some true, sq := some true, bq := none, nested := false },
  { name := "37", single := [45, 45], multiStart := [], multiEnd := [], dq := some true, sq := some true, bq := none, nested := false },
  { name := "38", single := [47, 47], multiStart := [47, 42], multiEnd := [42, 47], dq := some true, sq := some true, bq := none, nested := false },
  { name := "39", single := [47, 47], multiStart := [47, 42], multiEnd := [42, 47], dq := some true, sq := some true, bq := none, nested := false },
  { name := "40", single := [35], multiStart := [], multiEnd := [], dq := some true, sq := some true, bq := none, nested := false },
  { name := "41", single := [47, 47], multiStart := [47, 42], multiEnd := [42, 47], dq := some true, sq := some true, bq := none, nested := true },
  { name := "42", single := [47, 47], multiStart := [47, 42], multiEnd := [42, 47], dq := some true, sq := some true, bq := none, nested := false },
  { name := "43", single := [35], multiStart := [], multiEnd := [], dq := some true, sq := some true, bq := none, nested := false },
  { name := "44", single := [47, 47], multiStart := [47, 42], multiEnd := [42, 47], dq := some true, sq := some true, bq := none, nested := false },
  { name := "45", single := [47, 47], multiStart := [47, 42], multiEnd := [42, 47], dq := some true, sq := some true, bq := none, nested := false },
  { name := "46", single := [], multiStart := [], multiEnd := [], dq := some true, sq := some true, bq := none, nested := false },
  { name := "47", single := [47, 47], multiStart := [47, 42], multiEnd := [42, 47], dq := some true, sq := some true, bq := none, nested := false },
  { name := "48", single := [35], multiStart := [], multiEnd := [], dq := some true, sq := some true, bq := none, nested := false },
  { name := "49", single := [], multiStart := [], multiEnd := [], dq := some true, sq := some true, bq := none, nested := false },
  { name := "50", single := [], multiStart := [], multiEnd := [], dq := some true, sq := some true, bq := none, nested := false },
  { name := "51", single := [], multiStart := [], multiEnd := [], dq := some true, sq := some true, bq := none, nested := false },
  { name := "52", single := [], multiStart := [], multiEnd := [], dq := some true, sq := some true, bq := none, nested := false },
  { name := "53", single := [], multiStart := [], multiEnd := [], dq := some true, sq := some true, bq := none, nested := false },
  { name := "54", single := [], multiStart := [], multiEnd := [], dq := some true, sq := some true, bq := none, nested := false },
  { name := "55", single := [], multiStart := [], multiEnd := [], dq := some true, sq := some true, bq := none, nested := false },
  { name := "56", single := [], multiStart := [], multiEnd := [], dq := some true, sq := some true, bq := none, nested := false },
  { name := "57", single := [], multiStart := [], multiEnd := [], dq := some true, sq := some true, bq := none, nested := false },
  { name := "58", single := [], multiStart := [], multiEnd := [], dq := some true, sq := some true, bq := none, nested := false },
  { name := "59", single := [], multiStart := [], multiEnd := [], dq := some true, sq := some true, bq := none, nested := false },
  { name := "60", single := [], multiStart := [], multiEnd := [], dq := some true, sq := some true, bq := none, nested := false },
  { name := "61", single := [], multiStart := [], multiEnd := [], dq := some true, sq := some true, bq := none, nested := false },
  { name := "62", single := [], multiStart := [], multiEnd := [], dq := some true, sq := some true, bq := none, nested := false },
  { name := "63", single := [], multiStart := [], multiEnd := [], dq := some true, sq := some true, bq := none, nested := false }
]

def cHTML : Nat := 17
def cJavaScript : Nat := 20
def cMatlab : Nat := 25
def cMySQL : Nat := 26
def cObjectiveC : Nat := 28
def cPerl : Nat := 29
def cPython : Nat := 30
def cSQL : Nat := 37
def cUnknown : Nat := 0
def cYaml : Nat := 48

end LC.Spec.LangExpect
