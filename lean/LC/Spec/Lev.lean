/-
Specification: word-level Levenshtein distance with unit costs (the textbook
three-way recursion), over an arbitrary alphabet of "words".
Core Lean only.
-/
namespace LC.Lev

variable {ω : Type} [DecidableEq ω]

/-- Levenshtein distance: insertions, deletions and substitutions cost 1. -/
def lev : List ω → List ω → Nat
  | [], ys => ys.length
  | xs, [] => xs.length
  | x :: xs, y :: ys =>
    if x = y then lev xs ys
    else 1 + min (lev xs (y :: ys)) (min (lev (x :: xs) ys) (lev xs ys))
termination_by xs ys => xs.length + ys.length

end LC.Lev
