/-
Specification: the straightforward comment lexer for a language's comment and
string syntax (C18).  An automaton over the runes of the source with modes

  code · string(quote, escapes) · doc-string · block comment(depth) · line comment

maximal munch, block comments before line comments, the end delimiter is
looked for at every position of a block comment (so `/**/` is an empty comment),
nested block comments only where the language has them, a string ends at its
closing quote (or, for JavaScript and Perl, at the end of the line) and the
scan resumes with the very next character.  An unterminated string or block
comment ends the scan: an unterminated construct is not a comment of the
language.  Lines are 1-based; a comment's StartLine/EndLine are the lines of its
first delimiter and of its last character.

The syntax of each language is `LC.Spec.LangExpect.facts` (hand-maintained),
NOT the table regenerated from the code.
Core Lean only.
-/
import LC.Model.Lexer
import LC.Spec.LangExpect

namespace LC.LexSpec
open LC.Lexer LC.Utf8

/-- number of newlines in a rune string -/
def nls (l : List Rune) : Nat := l.count 10

/-- scan a string body: returns the remaining input after the closing quote, the lines
crossed, and the content; `none` if the input ends first. -/
def strBody (quote : List Rune) (esc nlEnds : Bool) : Nat → List Rune → List Rune → Option (List Rune × List Rune)
  | 0, _, _ => none
  | fuel + 1, rest, acc =>
    match rest with
    | [] => none
    | c :: cs =>
      if esc ∧ c = 92 then
        match cs with
        | [] => none
        | d :: ds => if ds = [] then none else strBody quote esc nlEnds fuel ds (acc ++ [d])
      else if quote.isPrefixOf rest then some (rest.drop quote.length, acc)
      else if nlEnds ∧ c = 10 then some (rest, acc)
      else if cs = [] then none else strBody quote esc nlEnds fuel cs (acc ++ [c])

/-- scan a block comment body at nesting depth `depth` -/
def blockBody (start stop : List Rune) (nested : Bool) : Nat → List Rune → Nat → List Rune → Option (List Rune × List Rune)
  | 0, _, _, _ => none
  | fuel + 1, rest, depth, acc =>
    match rest with
    | [] => none
    | c :: cs =>
      if nested ∧ start ≠ [] ∧ start.isPrefixOf rest then
        blockBody start stop nested fuel (rest.drop start.length) (depth + 1) (acc ++ start)
      else if stop ≠ [] ∧ stop.isPrefixOf rest then
        if depth > 0 then blockBody start stop nested fuel (rest.drop stop.length) (depth - 1) (acc ++ stop)
        else some (rest.drop stop.length, acc)
      else blockBody start stop nested fuel cs depth (acc ++ [c])

def firstPrefix : List (List Rune) → List Rune → Option (List Rune)
  | [], _ => none
  | s :: ss, rest => if s ≠ [] ∧ s.isPrefixOf rest then some s else firstPrefix ss rest

def firstBlock : List (List Rune × List Rune) → List Rune → Option (List Rune × List Rune)
  | [], _ => none
  | (s, e) :: ms, rest => if s ≠ [] ∧ s.isPrefixOf rest then some (s, e) else firstBlock ms rest

/-- code mode. `line` is the current line, `col` the number of characters already seen on it. -/
def code (R : Row) : Nat → List Rune → Nat → Nat → List Comment
  | 0, _, _, _ => []
  | fuel + 1, rest, line, col =>
    match rest with
    | [] => []
    | c :: cs =>
      let skip := code R fuel cs (if c = 10 then line + 1 else line) (if c = 10 then 0 else col + 1)
      let quoteInfo : Option Bool :=
        if c = 34 then R.dq else if c = 39 then R.sq else if c = 96 then R.bq else none
      if c = 34 ∨ c = 39 ∨ c = 96 then
        if R.html then skip
        else match quoteInfo with
          | none => skip
          | some esc =>
            let triple := [c, c, c]
            let isTriple := R.python ∧ (c = 34 ∨ c = 39) ∧ triple.isPrefixOf rest
            let quote := if isTriple then triple else [c]
            let isDoc := isTriple ∧ col = 0
            let body := rest.drop quote.length
            match strBody quote esc R.nlEndsString (body.length + 1) body [] with
            | none => []
            | some (rest', content) =>
              let consumed := rest.length - rest'.length
              let seen := rest.take consumed
              let line' := line + nls seen
              let col' := if nls seen = 0 then col + consumed else (seen.reverse.takeWhile (· ≠ 10)).length
              -- a doc-string's EndLine is the line of its closing quote
              (if isDoc then [{ startLine := line, endLine := line', text := content }] else []) ++
                code R fuel rest' line' col'
      else
        match firstBlock R.multis rest with
        | some (start, stop) =>
          let body := rest.drop start.length
          match blockBody start stop R.nested (body.length + 1) body 0 [] with
          | none => []
          | some (rest', text) =>
            let consumed := rest.length - rest'.length
            let seen := rest.take consumed
            let line' := line + nls seen
            let col' := if nls seen = 0 then col + consumed else (seen.reverse.takeWhile (· ≠ 10)).length
            { startLine := line, endLine := line', text := text } :: code R fuel rest' line' col'
        | none =>
          match firstPrefix R.singles rest with
          | some s =>
            let body := rest.drop s.length
            let text := body.takeWhile (· ≠ 10)
            let rest' := body.dropWhile (· ≠ 10)
            if rest' = [] then []
            else { startLine := line, endLine := line, text := text } ::
                   code R fuel rest' line (col + s.length + text.length)
          | none => skip

/-- the comments of a source text (decoded runes) in the language described by `R` -/
def comments (R : Row) (rs : List Rune) : List Comment :=
  if rs = [] then []
  else
    let rs' := if rs.getLast? = some 10 then rs else rs ++ [10]
    code R (rs'.length + 1) rs' 1 0

/-- the language constants (iota values of language.go), part of the hand-maintained expectation -/
def expectedConsts : LangConsts :=
  { html := 17, python := 30, javaScript := 20, perl := 29, sql := 37, objectiveC := 28, mySQL := 26, matlab := 25 }

/-- the specification lexer for language number `lang` -/
def specComments (lang : Nat) (rs : List Rune) : List Comment :=
  comments (rowOf LC.Spec.LangExpect.facts expectedConsts lang) rs

end LC.LexSpec
