import Driver.Util
import Driver.C20
import Driver.V2
/-
lcdriver: reads one record per line on stdin, `<stage>\t<id>\t<fields…>`,
runs the model's executable definitions, prints `<id>\t<result>`.
-/
open Driver

def handle (line : String) : String :=
  match splitTab line with
  | "heap" :: id :: ops :: _ => id ++ "\t" ++ C20.runHeap (if ops.isEmpty then [] else ops.splitOn ",")
  | "sets" :: id :: en :: ops :: _ =>
    let e : LC.Sets.Enum Nat := if en = "rev" then LC.Sets.Enum.rev else LC.Sets.Enum.id
    id ++ "\t" ++ C20.runSets e 4 (if ops.isEmpty then [] else ops.splitOn ",")
  | "tok" :: id :: n :: hx :: _ => id ++ "\t" ++ V2.runTok (n == "1") (unhex hx)
  | _ :: id :: _ => id ++ "\tBADSTAGE"
  | _ => "?\tBADLINE"

partial def loop (h : IO.FS.Stream) (out : IO.FS.Stream) : IO Unit := do
  let line ← h.getLine
  if line.isEmpty then return ()
  let l := (line.dropEndWhile (fun c => c = '\n' || c = '\r')).toString
  if !l.isEmpty then out.putStrLn (handle l)
  loop h out

def main : IO Unit := do
  let stdin ← IO.getStdin
  let stdout ← IO.getStdout
  loop stdin stdout
