import Driver.Util
import Driver.C20
import Driver.V2
import Driver.V2Match
import Driver.Lex
import Driver.Path
/-
lcdriver: reads one record per line on stdin, `<stage>\t<id>\t<fields…>`,
runs the model's executable definitions, prints `<id>\t<result>`.
-/
open Driver

structure St where
  corpora : List (String × V2Match.Corpus) := []

def handle (st : St) (line : String) : St × String :=
  match splitTab line with
  | "heap" :: id :: ops :: _ => (st, id ++ "\t" ++ C20.runHeap (if ops.isEmpty then [] else ops.splitOn ","))
  | "sets" :: id :: en :: ops :: _ =>
    let e : LC.Sets.Enum Nat := if en = "rev" then LC.Sets.Enum.rev else LC.Sets.Enum.id
    (st, id ++ "\t" ++ C20.runSets e 4 (if ops.isEmpty then [] else ops.splitOn ","))
  | "tok" :: id :: n :: hx :: _ => (st, id ++ "\t" ++ V2.runTok (n == "1") (unhex hx))
  | "norm" :: id :: hx :: _ => (st, id ++ "\t" ++ V2.runNorm (unhex hx))
  | "norm" :: id :: _ => (st, id ++ "\t" ++ V2.runNorm [])
  | "v2corpus" :: id :: thr :: q :: words :: docs :: _ =>
    let c := V2Match.parseCorpus thr q words docs
    ({ st with corpora := (id, c) :: st.corpora },
      id ++ "\t" ++ s!"corpus {c.docs.size} docs {c.words.size} words")
  | "match" :: id :: cid :: toks :: crs :: diffs :: _ =>
    match st.corpora.lookup cid with
    | some c => (st, id ++ "\t" ++ V2Match.runMatch c toks crs diffs)
    | none => (st, id ++ "\tNOCORPUS")
  | "lex" :: id :: lang :: hx :: _ => (st, id ++ "\t" ++ Lex.runLex lang.toNat! (unhex hx))
  | "spec:lexspec" :: id :: lang :: hx :: _ => (st, id ++ "\t" ++ Lex.runLexSpec lang.toNat! (unhex hx))
  | "spec:lexspec" :: id :: lang :: _ => (st, id ++ "\t" ++ Lex.runLexSpec lang.toNat! [])
  | "lex" :: id :: lang :: _ => (st, id ++ "\t" ++ Lex.runLex lang.toNat! [])
  | "v1tok" :: id :: hx :: _ => (st, id ++ "\t" ++ V1.runV1Tok (unhex hx))
  | "v1tok" :: id :: _ => (st, id ++ "\t" ++ V1.runV1Tok [])
  | "v1exact" :: id :: u :: v :: _ => (st, id ++ "\t" ++ V1.runV1Exact (unhex u) (unhex v))
  | "v1uniq" :: id :: f :: _ => (st, id ++ "\t" ++ V1.runV1Uniq f)
  | "v1uniq" :: id :: _ => (st, id ++ "\t" ++ V1.runV1Uniq "")
  | "v1post" :: id :: f :: _ => (st, id ++ "\t" ++ V1.runV1Post f)
  | "v1post" :: id :: _ => (st, id ++ "\t" ++ V1.runV1Post "")
  | "clean" :: id :: hx :: _ => (st, id ++ "\t" ++ Path.runClean hx)
  | "clean" :: id :: _ => (st, id ++ "\t" ++ Path.runClean "")
  | "rel" :: id :: a :: b :: _ => (st, id ++ "\t" ++ Path.runRel a b)
  | "loadkey" :: id :: d :: ns :: _ => (st, id ++ "\t" ++ Path.runLoadKey d ns)
  | "chunk" :: id :: spec :: _ => (st, id ++ "\t" ++ Lex.runChunk spec)
  | "chunk" :: id :: _ => (st, id ++ "\t" ++ Lex.runChunk "")
  | _ :: id :: _ => (st, id ++ "\tBADSTAGE")
  | _ => (st, "?\tBADLINE")

partial def loop (h : IO.FS.Stream) (out : IO.FS.Stream) (st : St) : IO Unit := do
  let line ← h.getLine
  if line.isEmpty then return ()
  let l := (line.dropEndWhile (fun c => c = '\n' || c = '\r')).toString
  if l.isEmpty then loop h out st
  else
    let (st', r) := handle st l
    out.putStrLn r
    loop h out st'

def main : IO Unit := do
  let stdin ← IO.getStdin
  let stdout ← IO.getStdout
  loop stdin stdout {}
