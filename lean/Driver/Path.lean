import Driver.Util
import LC.Model.LoadPath
/- C12 drivers: `clean`, `rel`, `loadkey`. Paths travel as hex of their UTF-8 bytes; the model
works on `Char`s, which is byte-faithful for '/' and '.' (ASCII) and transparent for the rest. -/
namespace Driver.Path
open Driver LC.LoadPath

def chars (hx : String) : List Char :=
  ((String.fromUTF8? (ByteArray.mk (unhex hx).toArray)).getD "?").toList

def hexOf (cs : List Char) : String := hex (String.ofList cs).toUTF8.toList

def runClean (hx : String) : String := hexOf (clean (chars hx))

def runRel (a b : String) : String :=
  match rel (chars a) (chars b) with
  | some r => hexOf r
  | none => "err"

def runLoadKey (dir names : String) : String :=
  match loadKey (chars dir) ((if names.isEmpty then [] else names.splitOn "|").map chars) with
  | .err => "err"
  | .skip => "skip"
  | .key c n v => s!"key:{hexOf c}|{hexOf n}|{hexOf v}"

end Driver.Path
