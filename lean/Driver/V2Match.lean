import Driver.Util
import Driver.Crc
import Std.Data.HashMap
import LC.Model.V2Match
import LC.Model.V2Env
import LC.Model.HtmlUnescape
/- v2 driver: stages `v2corpus` (defines a corpus) and `match` (S2–S6 against it). -/
namespace Driver.V2Match
open Driver LC.V2Match LC.Score

/-- NumEnv over float64, each expression written in the order of the Go source. -/
def numEnv (t : Float) : NumEnv Float where
  q := if t == 1.0 then 10 else Nat.max 1 ((t / (1.0 - t)).floor.toUInt64.toNat)
  simGE := fun h n => Float.ofNat h / Float.ofNat n >= t
  scaleFloor := fun n => (t * Float.ofNat n).floor.toUInt64.toNat
  errMargin := fun n => ((Float.ofNat n * (1.0 - t)).round).toUInt64.toNat
  conf := fun k d => if k = 0 then 1.0 else 1.0 - Float.ofNat d / Float.ofNat k
  confZero := 0.0
  confOne := 1.0
  geThr := fun c => c >= t
  gt := fun a b => a > b
  wgt := fun ta a tb b => Float.ofInt ta * a > Float.ofInt tb * b

structure Corpus where
  thr : Float
  words : Array (List UInt8)    -- index = id - 1
  docs : Array PDoc

def wordOf (words : Array (List UInt8)) (i : Nat) : List UInt8 :=
  if i = 0 then "UNKNOWN".toUTF8.toList else (words[i - 1]?).getD "UNKNOWN".toUTF8.toList

def countMap (ids : List Nat) : Std.HashMap Nat Nat :=
  ids.foldl (fun m i => m.insert i (m.getD i 0 + 1)) {}

/-- HashMap-backed equivalent of `LC.V2Match.prepare` (same functions, faster lookup) -/
def prepareFast (words : Array (List UInt8)) (q : Nat) (d : KDoc) : PDoc :=
  let qs := effQ q d.ids.length
  let hs := hashes Crc.crc32 (wordOf words) qs d.ids
  let hm : Std.HashMap Nat (List Nat) := hs.zipIdx.foldr (fun p m => m.insert p.1 (p.2 :: m.getD p.1 [])) {}
  let cm := countMap d.ids
  { doc := d, qs := qs, lookup := fun cs => hm.getD cs [], ks := distinct d.ids, cnt := fun t => cm.getD t 0 }

def parseBits (s : String) : Float :=
  Float.ofBits (s.toList.foldl (fun (acc : UInt64) c => acc * 16 + (hexVal c).toUInt64) 0)

def strOfHex (s : String) : String := (String.fromUTF8? (ByteArray.mk (unhex s).toArray)).getD "?"

def parseCorpus (thr _q wordsS docsS : String) : Corpus :=
  let t := parseBits thr
  let words := (if wordsS.isEmpty then [] else wordsS.splitOn ",").map unhex |>.toArray
  let N := numEnv t
  let docs := (if docsS.isEmpty then [] else docsS.splitOn ";").map (fun ds =>
    match ds.splitOn ":" with
    | [c, n, v, ids] => prepareFast words N.q { cat := strOfHex c, name := strOfHex n, variant := strOfHex v, ids := natList ids }
    | _ => prepareFast words N.q { cat := "?", name := "?", variant := "?", ids := [] })
  { thr := t, words := words, docs := docs.toArray }

def parseDiffs (s : String) : Std.HashMap (Nat × Nat × Nat) (List (Diff Nat)) :=
  (if s.isEmpty then [] else s.splitOn ";").foldl (fun m e =>
    match e.splitOn "=" with
    | [k, v] =>
      match k.splitOn ":" with
      | [d, a, b] =>
        let segs := (if v.isEmpty then [] else v.splitOn "|").map (fun sg =>
          let op := match sg.front with | 'e' => DOp.eq | 'i' => DOp.ins | _ => DOp.del
          ({ op := op, words := natList (sg.drop 1).toString } : Diff Nat))
        m.insert (d.toNat!, a.toNat!, b.toNat!) segs
      | _ => m
    | _ => m) {}

def hexStr (s : String) : String := hex s.toUTF8.toList

def floatBitsHex (f : Float) : String :=
  let b := f.toBits.toNat
  String.ofList ((List.range 16).reverse.map (fun i => hexDigit ((b >>> (4 * i)) % 16)))

def showResults (r : Results Float) : String :=
  joinWith ";" (r.ms.map (fun m =>
    s!"{hexStr m.name}|{hexStr m.variant}|{hexStr m.matchType}|{floatBitsHex m.conf}|{m.startLine}|{m.endLine}|{m.startTok}|{m.endTok}"))
    ++ "#" ++ toString r.totalInputLines

def decodeText (t : List UInt8) : List Nat := LC.Utf8.decodeAll t

def runMatch (c : Corpus) (toksS crS diffsS : String) : String :=
  let toks : Array IdTok := ((if toksS.isEmpty then [] else toksS.splitOn " ").map (fun t =>
    match t.splitOn ":" with
    | [i, l] => ({ id := i.toNat!, line := l.toNat! } : IdTok)
    | _ => { id := 0, line := 0 })).toArray
  let crs := natList crS
  let dm := parseDiffs diffsS
  let keyIdx : Std.HashMap String Nat := c.docs.toList.zipIdx.foldl (fun m p =>
    m.insert (p.1.doc.cat ++ "/" ++ p.1.doc.name ++ "/" ++ p.1.doc.variant) p.2) {}
  let diffOf (d : KDoc) (a b : Nat) : Option (List (Diff Nat)) :=
    (keyIdx.get? (d.cat ++ "/" ++ d.name ++ "/" ++ d.variant)).bind (fun i => dm.get? (i, a, b))
  let cm := countMap (toks.toList.map (·.id))
  let N := numEnv c.thr
  match matchModel N Crc.crc32 (wordOf c.words) LC.V2Env.isDigit decodeText LC.Gen.V2.inducedPhrases diffOf
      (fun t => cm.getD t 0) c.docs.toList toks crs with
  | .ok r => showResults r
  | .panic _ => "PANIC"
  | .missingDiff w => "MISSING-DIFF " ++ w

end Driver.V2Match
