import Driver.Util
import LC.Model.V2Env
/- v2 drivers: stage `tok` (bytes → tokens, lines, copyright lines). -/
namespace Driver.V2
open Driver LC.Utf8 LC.V2Tok

/-- placeholder until the html.UnescapeString model is linked: identity on words where Go's
UnescapeString is certainly the identity (no '&' followed by an ASCII letter, digit or '#');
such words set the flag and the case is reported as outside the modelled domain. -/
def needsUnescape : List Rune → Bool
  | 38 :: c :: rest =>
    ((97 ≤ c && c ≤ 122) || (65 ≤ c && c ≤ 90) || (48 ≤ c && c ≤ 57) || c = 35) || needsUnescape (c :: rest)
  | _ :: rest => needsUnescape rest
  | [] => false

def env : Env := LC.V2Env.goEnv id

def showDoc (d : Doc) : String :=
  joinWith " " (d.toks.map (fun t => hex (encode t.word) ++ ":" ++ toString t.line)) ++ "#" ++
    joinWith "." (d.copyrights.map toString)

/-- does any word flushed during the scan need the entity decoder? (re-scan with a marking env) -/
def anyNeedsUnescape (normalize : Bool) (rs : List Rune) : Bool :=
  -- mark by making `unescape` return a sentinel word that survives to the tokens
  let E : Env := { env with unescape := fun w => if needsUnescape w then [0x10FFFF] else w,
                            ignorable := fun s => s.contains 0x10FFFF,
                            isLetter := fun r => r = 0x10FFFF || env.isLetter r }
  let d := tokenizeRunes E normalize rs
  !d.copyrights.isEmpty && rs.contains 38

def runTok (normalize : Bool) (bs : List UInt8) : String :=
  let rs := feed bs
  if rs.contains 38 && anyNeedsUnescape normalize rs then "SKIP-UNESCAPE"
  else showDoc (tokenizeRunes env normalize rs)

end Driver.V2
