import Driver.Util
import LC.Model.V2Env
import LC.Model.HtmlUnescape
/- v2 drivers: stage `tok` (bytes → tokens, lines, copyright lines). -/
namespace Driver.V2
open Driver LC.Utf8 LC.V2Tok

def env : Env := LC.V2Env.goEnv LC.Html.unescapeRunes

def showDoc (d : Doc) : String :=
  joinWith " " (d.toks.map (fun t => hex (encode t.word) ++ ":" ++ toString t.line)) ++ "#" ++
    joinWith "." (d.copyrights.map toString)

def runTok (normalize : Bool) (bs : List UInt8) : String :=
  showDoc (tokenizeRunes env normalize (feed bs))

end Driver.V2

namespace Driver.V2
open Driver LC.Utf8 LC.V2Tok
def runNorm (bs : List UInt8) : String := hex (encode (normalizeRunes env bs))
end Driver.V2
