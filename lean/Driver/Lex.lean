import Driver.Util
import LC.Model.Lexer
import LC.Gen.LangTable
import LC.Spec.LangExpect
import LC.Spec.LexSpec
import LC.Model.V1Tok
import LC.Model.V1Search
import LC.Model.V1Glue
import LC.Model.V1Uniq
import LC.Model.V2Env
/- C18 drivers: `lex` (impl-level model over the regenerated table), `chunk` (ChunkIterator). -/
namespace Driver.Lex
open Driver LC.Lexer LC.Utf8

def genConsts : LangConsts :=
  { html := LC.Gen.Lang.cHTML, python := LC.Gen.Lang.cPython, javaScript := LC.Gen.Lang.cJavaScript,
    perl := LC.Gen.Lang.cPerl, sql := LC.Gen.Lang.cSQL, objectiveC := LC.Gen.Lang.cObjectiveC,
    mySQL := LC.Gen.Lang.cMySQL, matlab := LC.Gen.Lang.cMatlab }

def showComments (cs : List Comment) : String :=
  joinWith ";" (cs.map (fun c => s!"{c.startLine}:{c.endLine}:{hex (encode c.text)}"))

def runLex (lang : Nat) (bs : List UInt8) : String :=
  showComments (parse (rowOf LC.Gen.Lang.facts genConsts lang) (decodeAll bs))

def runLexSpec (lang : Nat) (bs : List UInt8) : String :=
  showComments (LC.LexSpec.specComments lang (decodeAll bs))

def runChunk (spec : String) : String :=
  let cs : List Comment := (if spec.isEmpty then [] else spec.splitOn ",").map (fun s =>
    match s.splitOn ":" with
    | [a, b] => { startLine := a.toNat!, endLine := b.toNat!, text := [] }
    | _ => { startLine := 0, endLine := 0, text := [] })
  joinWith "|" ((chunkIterator cs).map (fun ch => joinWith "," (ch.map (fun c => s!"{c.startLine}:{c.endLine}"))))

end Driver.Lex

namespace Driver.V1
open Driver LC.V1Tok

def goClasses : Classes := { isSpace := LC.V2Env.isSpace, isPunct := LC.V2Env.isPunct }

def runV1Tok (bs : List UInt8) : String :=
  joinWith " " ((tokenize goClasses bs).map (fun t => s!"{t.offset}:{hex t.text}"))

/-- stage `v1post`: field = ranges `ss,se,ts,te` separated by `;` (the list after sort.Sort);
answer = groups separated by `|` -/
def parseMR (s : String) : Option LC.V1Search.MR :=
  match (s.splitOn ",").map String.toInt? with
  | [some a, some b, some c, some d] => some { ss := a, se := b, ts := c, te := d }
  | _ => none

def showMR (r : LC.V1Search.MR) : String := s!"{r.ss},{r.se},{r.ts},{r.te}"

def runV1Post (field : String) : String :=
  let parts := if field.isEmpty then [] else field.splitOn ";"
  match parts.mapM parseMR with
  | none => "bad-record"
  | some l => joinWith "|" ((LC.V1Search.post l).map (fun g => joinWith ";" (g.map showMR)))

/-- stage `v1exact`: the exact path of stringclassifier `findMatches`: literal occurrences of the
value in the unknown text -> token range (as repaired) -> byte range; answer = `offset:extent`
per occurrence in text order, or `fuzzy` when there is no occurrence -/
def runV1Exact (unknown value : List UInt8) : String :=
  let toks := tokenize goClasses unknown
  let gt := toks.map (fun t => ({ offset := t.offset, len := t.text.length } : LC.V1Glue.Tok))
  match LC.V1Glue.findAllIndex unknown value with
  | [] => "fuzzy"
  | occ => joinWith " " (occ.map (fun ab =>
      let lohi := LC.V1Glue.trimOcc goClasses.isSpace unknown ab.1 ab.2
      let r := LC.V1Glue.exactRange gt lohi.1 lohi.2
      match targetRange toks r.1 (r.2 + 1) with
      | some tr =>
        let xy := LC.V1Glue.exactBytes ab.1 ab.2 lohi tr
        s!"{xy.1}:{xy.2 - xy.1}"
      | none => "PANIC"))

/-- stage `v1uniq`: `Matches.uniquify` on a list of matches `offset,extent;…` (already in rank
order; names and confidences play no part): the indices of the matches kept -/
def runV1Uniq (field : String) : String :=
  let parts := if field.isEmpty then [] else field.splitOn ";"
  let parse (p : String) : Option (Nat × Nat) :=
    match p.splitOn "," with
    | [a, b] => match a.toNat?, b.toNat? with
      | some x, some y => some (x, y)
      | _, _ => none
    | _ => none
  match parts.mapM parse with
  | none => "bad-record"
  | some l =>
    let ms : List LC.V1Glue.M := (List.range l.length).zip l |>.map (fun (i, oe) => { name := toString i, conf := 0, offset := oe.1, extent := oe.2 })
    joinWith " " ((LC.V1Glue.uniquify ms).map (·.name))

end Driver.V1
