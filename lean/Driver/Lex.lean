import Driver.Util
import LC.Model.Lexer
import LC.Gen.LangTable
import LC.Spec.LangExpect
import LC.Spec.LexSpec
import LC.Model.V1Tok
import LC.Model.V2Env
/- C18 drivers: `lex` (impl-level model over the regenerated table), `chunk` (ChunkIterator). -/
namespace Driver.Lex
open Driver LC.Lexer LC.Utf8

def genConsts : LangConsts :=
  { html := LC.Gen.Lang.cHTML, python := LC.Gen.Lang.cPython, javaScript := LC.Gen.Lang.cJavaScript,
    perl := LC.Gen.Lang.cPerl, sql := LC.Gen.Lang.cSQL, objectiveC := LC.Gen.Lang.cObjectiveC,
    mySQL := LC.Gen.Lang.cMySQL, matlab := LC.Gen.Lang.cMatlab }

def showComments (cs : List Comment) : String :=
  joinWith ";" (cs.map (fun c => s!"{c.startLine}:{c.endLine}:{hex (encode c.text)}"))

def runLex (lang : Nat) (bs : List UInt8) : String :=
  showComments (parse (rowOf LC.Gen.Lang.facts genConsts lang) (decodeAll bs))

def runLexSpec (lang : Nat) (bs : List UInt8) : String :=
  showComments (LC.LexSpec.specComments lang (decodeAll bs))

def runChunk (spec : String) : String :=
  let cs : List Comment := (if spec.isEmpty then [] else spec.splitOn ",").map (fun s =>
    match s.splitOn ":" with
    | [a, b] => { startLine := a.toNat!, endLine := b.toNat!, text := [] }
    | _ => { startLine := 0, endLine := 0, text := [] })
  joinWith "|" ((chunkIterator cs).map (fun ch => joinWith "," (ch.map (fun c => s!"{c.startLine}:{c.endLine}"))))

end Driver.Lex

namespace Driver.V1
open Driver LC.V1Tok

def goClasses : Classes := { isSpace := LC.V2Env.isSpace, isPunct := LC.V2Env.isPunct }

def runV1Tok (bs : List UInt8) : String :=
  joinWith " " ((tokenize goClasses bs).map (fun t => s!"{t.offset}:{hex t.text}"))

end Driver.V1
