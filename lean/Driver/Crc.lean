/- CRC-32 (IEEE), table driven; bit-exact with Go's hash/crc32.ChecksumIEEE. -/
namespace Driver.Crc

def table : Array UInt32 := Id.run do
  let mut t : Array UInt32 := Array.mkEmpty 256
  for i in [0:256] do
    let mut c : UInt32 := i.toUInt32
    for _ in [0:8] do
      c := if c &&& 1 == 1 then (c >>> 1) ^^^ 0xEDB88320 else c >>> 1
    t := t.push c
  return t

def crc32 (bs : List UInt8) : Nat :=
  let t := table
  let c := bs.foldl (fun (c : UInt32) b => (c >>> 8) ^^^ t[((c ^^^ b.toUInt32) &&& 0xFF).toNat]!) 0xFFFFFFFF
  (c ^^^ 0xFFFFFFFF).toNat

end Driver.Crc
