import Driver.Util
import LC.Model.Heap
import LC.Model.Sets
/- C20 drivers: heap op sequences and set-register programs. -/
namespace Driver.C20
open Driver

def showHeap (a : Array (LC.Heap.E Nat)) : String :=
  "[" ++ joinWith " " (a.toList.map (fun e => s!"{e.val}@{e.index}")) ++ "]"

def ltNat (x y : Nat) : Bool := decide (x < y)

/-- ops: `P<v>` push, `O` pop, `R<i>` remove, `F<i>:<v>` set priority then Fix.
Output: after every op `;`-joined: `<popped>|<heap>`; a Go panic is `PANIC` and ends the case. -/
def runHeap (ops : List String) : String :=
  let rec go : List String → Array (LC.Heap.E Nat) → List String → List String
    | [], _, acc => acc.reverse
    | op :: rest, a, acc =>
      let c := op.front
      let arg := (op.drop 1).toString
      if c = 'P' then
        let a' := LC.Heap.push ltNat a arg.toNat!
        go rest a' (("-|" ++ showHeap a') :: acc)
      else if c = 'O' then
        match LC.Heap.pop ltNat a with
        | some (a', e) => go rest a' ((s!"{e.val}|" ++ showHeap a') :: acc)
        | none => ("PANIC" :: acc).reverse
      else if c = 'R' then
        match LC.Heap.remove ltNat a arg.toNat! with
        | some (a', e) => go rest a' ((s!"{e.val}|" ++ showHeap a') :: acc)
        | none => ("PANIC" :: acc).reverse
      else if c = 'F' then
        match arg.splitOn ":" with
        | [i, v] =>
          match LC.Heap.setFix ltNat a i.toNat! v.toNat! with
          | some a' => go rest a' (("-|" ++ showHeap a') :: acc)
          | none => ("PANIC" :: acc).reverse
        | _ => ("BADOP" :: acc).reverse
      else ("BADOP" :: acc).reverse
  joinWith ";" (go ops #[] [])

open LC.Sets in
/-- registers hold `Option (S Nat)` (none = nil pointer). Program syntax (ops joined by `,`):
 N<r>:<elts>  r := New(elts)        Z<r>  r := nil
 I<r>:<elts>  r.Insert(elts)        D<r>:<elts>  r.Delete(elts)
 C<r>=<a>     r := a.Copy()
 X<r>=<a>&<b> Intersect   U<r>=<a>&<b> Union   F<r>=<a>&<b> Difference   Q<r>=<a>&<b> Unique
 J<a>&<b> Disjoint  E<a>&<b> Equal  H<a>:<e> Contains  L<a> Len  S<a> Sorted
Output per op: `<result>|<dump of all registers, each sorted>`; a nil receiver where Go would panic → PANIC. -/
def runSets (en : LC.Sets.Enum Nat) (nreg : Nat) (ops : List String) : String :=
  let sorted (l : List Nat) : List Nat := l.mergeSort (· ≤ ·)
  let dump (regs : Array (Option (S Nat))) : String :=
    joinWith "/" (regs.toList.map (fun r => match r with
      | none => "nil"
      | some s => "{" ++ showNatList (sorted s) ++ "}"))
  let rec go : List String → Array (Option (S Nat)) → List String → List String
    | [], _, acc => acc.reverse
    | op :: rest, regs, acc =>
      let c := op.front
      let body := (op.drop 1).toString
      let reg (s : String) : Option (S Nat) := (regs[s.toNat!]?).join
      let fin (res : String) (regs' : Array (Option (S Nat))) :=
        go rest regs' ((res ++ "|" ++ dump regs') :: acc)
      let panic := ("PANIC" :: acc).reverse
      match c with
      | 'N' => match body.splitOn ":" with
        | [r, es] => fin "-" (regs.setIfInBounds r.toNat! (some (new (natList es))))
        | _ => ("BADOP" :: acc).reverse
      | 'Z' => fin "-" (regs.setIfInBounds body.toNat! none)
      | 'I' => match body.splitOn ":" with
        | [r, es] => match reg r with
          | some s => fin "-" (regs.setIfInBounds r.toNat! (some (insert s (natList es))))
          | none => if (natList es).isEmpty then fin "-" regs else panic
        | _ => ("BADOP" :: acc).reverse
      | 'D' => match body.splitOn ":" with
        | [r, es] => match reg r with
          | some s => fin "-" (regs.setIfInBounds r.toNat! (some (delete s (natList es))))
          | none => if (natList es).isEmpty then fin "-" regs else panic
        | _ => ("BADOP" :: acc).reverse
      | 'C' => match body.splitOn "=" with
        | [r, a] => fin "-" (regs.setIfInBounds r.toNat! (some (copy en (reg a))))
        | _ => ("BADOP" :: acc).reverse
      | 'X' | 'U' | 'F' | 'Q' => match body.splitOn "=" with
        | [r, ab] => match ab.splitOn "&" with
          | [a, b] => match reg a with
            | none =>
              -- nil receiver: Union copies a nil receiver fine (Copy handles nil); the others
              -- dereference `s.set` and panic, except where `other == nil` returns first.
              if c = 'U' then fin "-" (regs.setIfInBounds r.toNat! (some (match reg b with
                | none => copy en none
                | some o => (en.f o).foldl put (copy en none))))
              else if c = 'X' ∧ (reg b).isNone then fin "-" (regs.setIfInBounds r.toNat! (some []))
              else if (c = 'F' ∨ c = 'Q') ∧ (reg b).isNone then fin "-" (regs.setIfInBounds r.toNat! (some (copy en none)))
              else panic
            | some s =>
              let res := match c with
                | 'X' => intersect en s (reg b)
                | 'U' => union en s (reg b)
                | 'F' => difference en s (reg b)
                | _ => unique en s (reg b)
              fin "-" (regs.setIfInBounds r.toNat! (some res))
          | _ => ("BADOP" :: acc).reverse
        | _ => ("BADOP" :: acc).reverse
      | 'J' => match body.splitOn "&" with
        | [a, b] => match reg a with
          | some s => fin (toString (disjoint en s (reg b))) regs
          | none => if (reg b).isNone then fin "true" regs else
              (match reg b with | some o => if o.length = 0 then fin "true" regs else panic | none => panic)
        | _ => ("BADOP" :: acc).reverse
      | 'E' => match body.splitOn "&" with
        | [a, b] => fin (toString (equal en (reg a) (reg b))) regs
        | _ => ("BADOP" :: acc).reverse
      | 'H' => match body.splitOn ":" with
        | [a, e] => match reg a with
          | some s => fin (toString (contains s e.toNat!)) regs
          | none => panic
        | _ => ("BADOP" :: acc).reverse
      | 'L' => match reg body with
        | some s => fin (toString (len s)) regs
        | none => panic
      | 'S' => match reg body with
        | some s => fin ("{" ++ showNatList (sorted (elements en s)) ++ "}") regs
        | none => panic
      | _ => ("BADOP" :: acc).reverse
  joinWith ";" (go ops (Array.replicate nreg none) [])

end Driver.C20
