/- Line-protocol helpers for the model driver. Core Lean only. -/
namespace Driver

def splitTab (s : String) : List String := s.splitOn "\t"

def hexVal (c : Char) : Nat :=
  if '0' ≤ c ∧ c ≤ '9' then c.toNat - '0'.toNat
  else if 'a' ≤ c ∧ c ≤ 'f' then c.toNat - 'a'.toNat + 10
  else if 'A' ≤ c ∧ c ≤ 'F' then c.toNat - 'A'.toNat + 10
  else 0

/-- lower-case hex → bytes -/
def unhex (s : String) : List UInt8 :=
  let rec go : List Char → List UInt8 → List UInt8
    | a :: b :: rest, acc => go rest ((UInt8.ofNat (hexVal a * 16 + hexVal b)) :: acc)
    | _, acc => acc.reverse
  go s.toList []

def hexDigit (n : Nat) : Char :=
  if n < 10 then Char.ofNat (n + '0'.toNat) else Char.ofNat (n - 10 + 'a'.toNat)

def hex (bs : List UInt8) : String :=
  String.ofList (bs.foldr (fun b acc => hexDigit (b.toNat / 16) :: hexDigit (b.toNat % 16) :: acc) [])

def joinWith (sep : String) (l : List String) : String := sep.intercalate l

def natList (s : String) (sep : String := ".") : List Nat :=
  if s.isEmpty then [] else (s.splitOn sep).filterMap String.toNat?

def showNatList (l : List Nat) (sep : String := ".") : String := joinWith sep (l.map toString)

end Driver
